//! Execution of one operation: the real calloop call, the model update, the result check.
//! Rule: never hold a borrow of `sim.st` across a calloop call that can run user code
//! (register/unregister of a wrapped source, drops of sources and closures).

use std::cell::Cell;
use std::collections::VecDeque;
use std::os::fd::{AsRawFd, OwnedFd};
use std::panic::{catch_unwind, AssertUnwindSafe};
use std::rc::Rc;
use std::time::Duration;

use calloop::channel::{channel, sync_channel};
use calloop::generic::Generic;
use calloop::ping::make_ping;
use calloop::timer::Timer;
use calloop::{Dispatcher, Interest, Mode};

use crate::cb;
use crate::engine::{model_disabled, model_enabled, model_reregistered, panic_msg};
use crate::model::*;
use crate::os;
use crate::program::*;
use crate::sim::*;
use crate::wrap::{Wrap, WrapShared};

pub fn interest_of(i: u8) -> Interest {
    Interest { readable: i & 1 != 0, writable: i & 2 != 0 }
}

pub fn mode_of(m: u8) -> Mode {
    match m {
        0 => Mode::Level,
        1 => Mode::Edge,
        _ => Mode::OneShot,
    }
}

pub struct DropCtr(pub Rc<Cell<u32>>);

impl Drop for DropCtr {
    fn drop(&mut self) {
        self.0.set(self.0.get() + 1);
    }
}

pub fn new_src(id: Id, script: &Script, k: K, sh: Rc<WrapShared>, cb_drop: Rc<Cell<u32>>) -> Src {
    Src {
        id,
        token: None,
        reg_key: None,
        inserted: false,
        enabled: false,
        indeterminate: false,
        in_processing: 0,
        script: script.iter().cloned().collect::<VecDeque<_>>(),
        sh,
        cb_drop,
        deferred: None,
        kept: false,
        k,
        cb_this_dispatch: 0,
        pe_this_dispatch: 0,
        excused: false,
        enabled_when_removed: false,
        rereg_at_start: 0,
        old_loop: false,
        was_disabled: false,
        reenabled: false,
        rereg_count_expected: 0,
        removed_in_own_cb: false,
        errored_this_dispatch: false,
        exp: [0; 3],
    }
}

fn deadline_ns(sim: &Sim, dl: Deadline) -> Option<u64> {
    match dl {
        Deadline::Immediate => Some(sim.now_ns()),
        Deadline::In(u64::MAX) => None,
        Deadline::In(d) => sim.now_ns().checked_add(d),
        Deadline::At(t) => Some(t),
    }
}

fn make_timer(sim: &Sim, dl: Deadline) -> Timer {
    match dl {
        Deadline::Immediate => Timer::immediate(),
        Deadline::In(u64::MAX) => Timer::from_duration(Duration::MAX),
        Deadline::In(d) => Timer::from_duration(Duration::from_nanos(d)),
        Deadline::At(t) => Timer::from_deadline(sim.instant_at(t)),
    }
}

/// Run `f` (a calloop API call) catching panics; a panic is a violation, never a crash.
pub fn guarded<T>(sim: &Sim, what: &str, f: impl FnOnce() -> T) -> Option<T> {
    sim.hk.borrow_mut().api_depth += 1;
    let r = catch_unwind(AssertUnwindSafe(f));
    sim.hk.borrow_mut().api_depth -= 1;
    attribute_faults(sim);
    match r {
        Ok(v) => Some(v),
        Err(p) => {
            let in_cb = !sim.st.try_borrow().map(|s| s.cur_event.is_empty() && s.cur_idle.is_none()).unwrap_or(true);
            sim.violate(
                "op.panic",
                vec![what.to_string(), if in_cb { "in_callback".into() } else { "top_level".into() }],
                format!("{} panicked: {}", what, panic_msg(&p)),
            );
            None
        }
    }
}

fn handle(sim: &Sim) -> Option<calloop::LoopHandle<'static, Tag>> {
    sim.st.borrow().handle.clone()
}

fn in_own_processing(sim: &Sim, id: Id) -> bool {
    sim.st.borrow().srcs.get(&id).map(|s| s.in_processing > 0).unwrap_or(false)
}

fn mark_excused(sim: &Sim, id: Id) {
    let in_dispatch = sim.hk.borrow().in_dispatch;
    if in_dispatch {
        if let Some(s) = sim.st.borrow_mut().srcs.get_mut(&id) {
            s.excused = true;
        }
    }
}

/// record the outcome of an insertion
pub fn finish_insert(sim: &Sim, id: Id, mut src: Src, res: Result<calloop::RegistrationToken, String>, natural_failure_expected: bool) {
    src.exp[0] += 1;
    let fault = std::mem::replace(&mut sim.hk.borrow_mut().fault_window, false);
    match res {
        Ok(tok) => {
            // a (slot, generation) pair names one source for ever (until the 16-bit generation
            // wraps): handing it out twice lets stale tokens and stale events hit the newcomer
            {
                let mut st = sim.st.borrow_mut();
                let fresh = st.issued_keys.insert(tok.verif_key());
                let churned = st.churned;
                drop(st);
                if !fresh && !churned {
                    sim.violate_props("token.stale_had_effect", &["C15"], vec!["generation_issued_twice".into()], format!("the token of the new source {} (key {:#x}) had already been issued to an earlier source of this loop", id, tok.verif_key()));
                    return;
                }
            }
            src.token = Some(tok);
            src.reg_key = Some(tok.verif_key());
            src.inserted = true;
            src.enabled = true;
            let now = sim.now_ns();
            model_reregistered(&mut src, now);
            if fault {
                // a seam fault fired but the insertion still reported success
                src.indeterminate = true;
            }
            let mut st = sim.st.borrow_mut();
            st.key_to_id.insert(tok.verif_key(), id);
            st.srcs.insert(id, src);
            drop(st);
            if natural_failure_expected {
                sim.violate("op.unexpected_result", vec!["insert_should_fail".into()], format!("insertion of source {} over an unusable fd succeeded", id));
            }
        }
        Err(e) => {
            sim.trace(|| format!("  insert {} failed: {}", id, e));
            sim.probe("insert_failed");
            src.k = match src.k {
                K::Generic(g) => K::Generic(g),
                _ => K::Failed,
            };
            let was_generic = matches!(src.k, K::Generic(_));
            if !was_generic {
                src.k = K::Failed;
            }
            src.inserted = false;
            src.enabled = false;
            if !fault && !natural_failure_expected {
                sim.st.borrow_mut().srcs.insert(id, src);
                sim.violate("op.unexpected_result", vec!["insert_failed".into()], format!("insertion of source {} failed without any fault: {}", id, e));
                return;
            }
            // the rejected source came back to us and has been dropped by now: the model
            // keeps it only for its drop counters
            if was_generic {
                if let K::Generic(g) = &mut src.k {
                    g.released = true;
                }
                src.kept = false;
            }
            sim.st.borrow_mut().srcs.insert(id, src);
        }
    }
}

pub fn exec_op(sim: &Sim, op: &Op, in_cb: bool) {
    if sim.is_dead() {
        return;
    }
    sim.probe("ops");
    if in_cb {
        sim.trace(|| format!("    cb-op {}", crate::engine::brief(op)));
        c08_cell(sim, op);
    }
    // a transient parent one of whose children just failed a scripted (un)registration is judged
    // before anything else is done to it
    if let Some(t) = op_target(op) {
        let pending = matches!(sim.st.borrow().srcs.get(&t), Some(s) if s.indeterminate && s.in_processing == 0 && matches!(&s.k, K::Trans(k) if !k.gave_up));
        if pending {
            crate::transient::check(sim, t, "before_next_op");
            if sim.is_dead() {
                return;
            }
        }
    }
    match op {
        Op::Nop | Op::Dispatch(_) | Op::DropLoop | Op::NewLoop | Op::Run { .. } | Op::BlockOn { .. } => {}
        Op::ReinsertKept(id) => reinsert_kept(sim, *id),
        Op::InsertPing { id, script } => {
            let Some(h) = handle(sim) else { return };
            if sim.st.borrow().srcs.contains_key(id) {
                return;
            }
            let Ok((ping, source)) = make_ping() else { return };
            let sh = WrapShared::new(*id);
            let cbd = Rc::new(Cell::new(0));
            let src = new_src(
                *id,
                script,
                K::Ping(PingK { handles: vec![ping], pending: false, close_written: false, closed_at_pe: false, pending_at_pe: false, cb_in_pe: 0 }),
                sh.clone(),
                cbd.clone(),
            );
            let guard = DropCtr(cbd);
            let id2 = *id;
            let r = guarded(sim, "insert_source", || {
                h.insert_source(Wrap::new(source, sh), move |(), _, tag: &mut Tag| {
                    let _g = &guard;
                    cb::on_ping(id2, tag);
                })
                .map_err(|e| e.error.to_string())
            });
            if let Some(r) = r {
                finish_insert(sim, *id, src, r, false);
            }
        }
        Op::InsertChannel { id, bound, script } => {
            let Some(h) = handle(sim) else { return };
            if sim.st.borrow().srcs.contains_key(id) {
                return;
            }
            let sh = WrapShared::new(*id);
            let cbd = Rc::new(Cell::new(0));
            let guard = DropCtr(cbd.clone());
            let id2 = *id;
            let (k, chan) = match bound {
                None => {
                    let (s, c) = channel::<u64>();
                    (ChanK { senders: vec![s], ssenders: vec![], bound: None, queue: VecDeque::new(), next_val: 0, closed_delivered: false, msgs_in_pe: 0 }, c)
                }
                Some(b) => {
                    let (s, c) = sync_channel::<u64>(*b as usize);
                    (ChanK { senders: vec![], ssenders: vec![s], bound: Some(*b), queue: VecDeque::new(), next_val: 0, closed_delivered: false, msgs_in_pe: 0 }, c)
                }
            };
            let src = new_src(*id, script, K::Channel(k), sh.clone(), cbd);
            let r = guarded(sim, "insert_source", || {
                h.insert_source(Wrap::new(chan, sh), move |ev, _, tag: &mut Tag| {
                    let _g = &guard;
                    cb::on_channel(id2, ev, tag);
                })
                .map_err(|e| e.error.to_string())
            });
            if let Some(r) = r {
                finish_insert(sim, *id, src, r, false);
            }
        }
        Op::InsertTimer { id, dl, keep, script } => {
            let Some(h) = handle(sim) else { return };
            if sim.st.borrow().srcs.contains_key(id) {
                return;
            }
            let sh = WrapShared::new(*id);
            let cbd = Rc::new(Cell::new(0));
            let guard = DropCtr(cbd.clone());
            let id2 = *id;
            let deadline = deadline_ns(sim, *dl);
            let timer = make_timer(sim, *dl);
            let disp = Dispatcher::new(Wrap::new(timer, sh.clone()), move |ev, _, tag: &mut Tag| {
                let _g = &guard;
                cb::on_timer(id2, ev, tag)
            });
            let mut src = new_src(
                *id,
                script,
                K::Timer(TimerK { disp: if *keep { Some(disp.clone()) } else { None }, deadline, armed: false, arm_no: 0, fired_arm: None, expect_remove: false }),
                sh,
                cbd,
            );
            src.kept = *keep;
            let r = guarded(sim, "register_dispatcher", || h.register_dispatcher(disp).map_err(|e| e.to_string()));
            if let Some(r) = r {
                finish_insert(sim, *id, src, r, false);
            }
        }
        Op::InsertGeneric { id, fd, interest, mode, keep, script } => insert_generic(sim, *id, *fd, *interest, *mode, *keep, script),
        Op::Remove(id) => {
            let Some(h) = handle(sim) else { return };
            let Some(tok) = sim.st.borrow().srcs.get(id).filter(|s| !s.old_loop).and_then(|s| s.token) else { return };
            let before = h.verif_stats();
            let was_inserted = sim.st.borrow().srcs.get(id).map(|s| s.inserted).unwrap_or(false);
            let enabled_before = sim.st.borrow().srcs.get(id).map(|s| s.enabled).unwrap_or(false);
            let own = in_own_processing(sim, *id);
            if guarded(sim, "remove", || h.remove(tok)).is_none() {
                return;
            }
            let fault = std::mem::replace(&mut sim.hk.borrow_mut().fault_window, false);
            if fault && was_inserted {
                // the unregistration failed: the source is gone from the loop but its fd may
                // stay registered until the source is dropped
                sim.st.borrow_mut().srcs.get_mut(id).unwrap().indeterminate = true;
            }
            if was_inserted {
                mark_excused(sim, *id);
                let mut st = sim.st.borrow_mut();
                let s = st.srcs.get_mut(id).unwrap();
                s.inserted = false;
                s.enabled = false;
                if own {
                    s.removed_in_own_cb = true;
                    s.enabled_when_removed = enabled_before;
                } else if enabled_before {
                    // a disabled source is not unregistered a second time
                    s.exp[2] += 1;
                }
                if let K::Timer(t) = &mut s.k {
                    t.armed = false;
                }
                let was_enabled = enabled_before;
                if let K::Trans(t) = &mut s.k {
                    if !own {
                        crate::transient::parent_registration(t, 2);
                    }
                    if !was_enabled {
                        // remove() of a disabled source unregisters it a second time: the
                        // parent's calls do not alternate, C18's proviso does not hold
                        s.indeterminate = true;
                        t.gave_up = true;
                    }
                }
                let k = s.reg_key;
                if let Some(k) = k {
                    if st.key_to_id.get(&k) == Some(id) {
                        st.key_to_id.remove(&k);
                    }
                }
                drop(st);
                if in_cb {
                    sim.probe(if own { "remove_self_in_callback" } else { "remove_other_in_callback" });
                }
            } else {
                // stale token: must be a no-op
                let after = h.verif_stats();
                if before.occupied_slots != after.occupied_slots {
                    sim.violate("token.stale_had_effect", vec!["remove".into()], format!("remove() with the dead token of source {} changed the number of sources", id));
                    return;
                }
                sim.probe("stale_token_remove");
                sim.rule_ok(&["C06"], 77);
            }
        }
        Op::Disable(id) => {
            let Some(h) = handle(sim) else { return };
            let Some((tok, inserted, enabled, indet)) = sim.st.borrow().srcs.get(id).filter(|s| !s.old_loop).and_then(|s| s.token.map(|t| (t, s.inserted, s.enabled, s.indeterminate))) else { return };
            let own = in_own_processing(sim, *id);
            // C18's proviso: the parent's own register and unregister calls alternate
            if inserted && !enabled && matches!(sim.st.borrow().srcs.get(id).map(|s| &s.k), Some(K::Trans(_))) {
                return;
            }
            let Some(r) = guarded(sim, "disable", || h.disable(&tok)) else { return };
            let fault = std::mem::replace(&mut sim.hk.borrow_mut().fault_window, false);
            if !inserted {
                stale_result(sim, *id, "disable", r);
                return;
            }
            if !own && enabled {
                sim.st.borrow_mut().srcs.get_mut(id).unwrap().exp[2] += 1;
            }
            match r {
                Ok(()) => {
                    if own {
                        let mut st = sim.st.borrow_mut();
                        st.srcs.get_mut(id).unwrap().deferred = Some(Deferred::Disable);
                        drop(st);
                        sim.probe("self_disable_deferred");
                    } else {
                        mark_excused(sim, *id);
                        let mut st = sim.st.borrow_mut();
                        model_disabled(st.srcs.get_mut(id).unwrap());
                        drop(st);
                        if in_cb {
                            sim.probe("disable_other_in_callback");
                        }
                    }
                }
                Err(e) => {
                    if fault || !enabled || indet {
                        // natural (already disabled) or injected failure: only this source
                        // becomes unknown
                        if fault {
                            sim.st.borrow_mut().srcs.get_mut(id).unwrap().indeterminate = true;
                        }
                        sim.probe("disable_failed");
                    } else {
                        crate::transient::check(sim, *id, "failed_op");
                        if sim.is_dead() {
                            return;
                        }
                        sim.violate("op.unexpected_result", vec!["disable".into()], format!("disable() of live enabled source {} failed: {}", id, e));
                    }
                }
            }
        }
        Op::Enable(id) => {
            let Some(h) = handle(sim) else { return };
            let Some((tok, inserted, enabled, indet)) = sim.st.borrow().srcs.get(id).filter(|s| !s.old_loop).and_then(|s| s.token.map(|t| (t, s.inserted, s.enabled, s.indeterminate))) else { return };
            // documented exclusions: enable() of the running source; enable() of a source
            // that is not disabled is outside the documented use
            if in_own_processing(sim, *id) || (inserted && enabled && !indet) {
                return;
            }
            // the fd of a disabled source may have been given to another source meanwhile: two
            // live sources never share an fd (that would be the program's bug)
            {
                let st = sim.st.borrow();
                if let Some(K::Generic(g)) = st.srcs.get(id).map(|s| &s.k) {
                    if st.srcs.iter().any(|(i, o2)| i != id && (o2.inserted && o2.enabled || o2.in_processing > 0) && matches!(&o2.k, K::Generic(g2) if Rc::ptr_eq(&g2.own.0, &g.own.0))) {
                        return;
                    }
                }
            }
            let Some(r) = guarded(sim, "enable", || h.enable(&tok)) else { return };
            let fault = std::mem::replace(&mut sim.hk.borrow_mut().fault_window, false);
            if !inserted {
                stale_result(sim, *id, "enable", r);
                return;
            }
            sim.st.borrow_mut().srcs.get_mut(id).unwrap().exp[0] += 1;
            match r {
                Ok(()) => {
                    mark_excused(sim, *id);
                    let now = sim.now_ns();
                    let mut st = sim.st.borrow_mut();
                    let s = st.srcs.get_mut(id).unwrap();
                    model_enabled(s, now);
                    if fault {
                        s.indeterminate = true;
                    }
                }
                Err(e) => {
                    if fault || indet {
                        sim.st.borrow_mut().srcs.get_mut(id).unwrap().indeterminate = true;
                        sim.probe("enable_failed");
                    } else {
                        crate::transient::check(sim, *id, "failed_op");
                        if sim.is_dead() {
                            return;
                        }
                        sim.violate("op.unexpected_result", vec!["enable".into()], format!("enable() of disabled source {} failed: {}", id, e));
                    }
                }
            }
        }
        Op::Update(id) => {
            let Some(h) = handle(sim) else { return };
            let Some((tok, inserted, enabled, indet)) = sim.st.borrow().srcs.get(id).filter(|s| !s.old_loop).and_then(|s| s.token.map(|t| (t, s.inserted, s.enabled, s.indeterminate))) else { return };
            let own = in_own_processing(sim, *id);
            // update() of a disabled source: whether it reports Ok or an error is not
            // specified, but it is not enable(): the source stays disabled (C07)
            if inserted && !enabled && !indet {
                if own {
                    return;
                }
                let Some(_r) = guarded(sim, "update", || h.update(&tok)) else { return };
                let fault = std::mem::replace(&mut sim.hk.borrow_mut().fault_window, false);
                let mut st = sim.st.borrow_mut();
                let s = st.srcs.get_mut(id).unwrap();
                // the source's reregister() may or may not have been called
                s.exp[1] = s.sh.rereg.get();
                if fault {
                    s.indeterminate = true;
                }
                drop(st);
                sim.probe("update_while_disabled");
                return;
            }
            let Some(r) = guarded(sim, "update", || h.update(&tok)) else { return };
            let fault = std::mem::replace(&mut sim.hk.borrow_mut().fault_window, false);
            if !inserted {
                stale_result(sim, *id, "update", r);
                return;
            }
            if !own {
                sim.st.borrow_mut().srcs.get_mut(id).unwrap().exp[1] += 1;
            }
            match r {
                Ok(()) => {
                    if own {
                        sim.st.borrow_mut().srcs.get_mut(id).unwrap().deferred = Some(Deferred::Reregister);
                        sim.probe("self_update_deferred");
                    } else {
                        mark_excused(sim, *id);
                        let now = sim.now_ns();
                        let mut st = sim.st.borrow_mut();
                        let s = st.srcs.get_mut(id).unwrap();
                        model_reregistered(s, now);
                        if fault {
                            s.indeterminate = true;
                        }
                        drop(st);
                        if in_cb {
                            sim.probe("update_other_in_callback");
                        }
                    }
                }
                Err(e) => {
                    if fault || indet {
                        sim.st.borrow_mut().srcs.get_mut(id).unwrap().indeterminate = true;
                        sim.probe("update_failed");
                    } else {
                        crate::transient::check(sim, *id, "failed_op");
                        if sim.is_dead() {
                            return;
                        }
                        sim.violate("op.unexpected_result", vec!["update".into()], format!("update() of live source {} failed: {}", id, e));
                    }
                }
            }
        }
        Op::Ping(id) => {
            let mut st = sim.st.borrow_mut();
            let Some(s) = st.srcs.get_mut(id) else { return };
            if let K::Life(l) = &mut s.k {
                // the second child gets every other ping
                if l.two && l.pending && !l.pending2 {
                    let Some(h) = l.handles2.first().cloned() else { return };
                    l.pending2 = true;
                    drop(st);
                    h.ping();
                    return;
                }
                let Some(h) = l.handles.first().cloned() else { return };
                l.pending = true;
                drop(st);
                h.ping();
                return;
            }
            let K::Ping(p) = &mut s.k else { return };
            let Some(h) = p.handles.first().cloned() else { return };
            p.pending = true;
            drop(st);
            h.ping();
        }
        Op::ClonePing(id) => {
            let mut st = sim.st.borrow_mut();
            let Some(s) = st.srcs.get_mut(id) else { return };
            let K::Ping(p) = &mut s.k else { return };
            if let Some(h) = p.handles.first().cloned() {
                if p.handles.len() < 4 {
                    p.handles.push(h);
                }
            }
        }
        Op::DropPing(id) => {
            let h = {
                let mut st = sim.st.borrow_mut();
                let Some(s) = st.srcs.get_mut(id) else { return };
                let K::Ping(p) = &mut s.k else { return };
                let h = p.handles.pop();
                if h.is_some() && p.handles.is_empty() {
                    p.close_written = true;
                }
                h
            };
            drop(h);
        }
        Op::Send(id) => {
            let mut st = sim.st.borrow_mut();
            let Some(s) = st.srcs.get_mut(id) else { return };
            let gone = !s.inserted && s.token.is_some() && s.sh.dropped.get() > 0;
            let K::Channel(c) = &mut s.k else { return };
            let v = ((*id as u64) << 32) | c.next_val;
            if let Some(tx) = c.senders.first() {
                let r = tx.send(v);
                if r.is_ok() {
                    c.next_val += 1;
                    c.queue.push_back(v);
                } else if !gone {
                    drop(st);
                    sim.violate("op.unexpected_result", vec!["send".into()], format!("send on channel {} failed although the channel is in the loop", id));
                }
            } else if let Some(tx) = c.ssenders.first() {
                // single-threaded history: never block the loop thread
                match tx.try_send(v) {
                    Ok(()) => {
                        c.next_val += 1;
                        c.queue.push_back(v);
                    }
                    Err(std::sync::mpsc::TrySendError::Full(_)) => {
                        drop(st);
                        sim.probe("sync_channel_full");
                    }
                    Err(_) => {
                        if !gone {
                            drop(st);
                            sim.violate("op.unexpected_result", vec!["send".into()], format!("try_send on channel {} failed although the channel is in the loop", id));
                        }
                    }
                }
            }
        }
        Op::CloneSender(id) => {
            let mut st = sim.st.borrow_mut();
            let Some(s) = st.srcs.get_mut(id) else { return };
            let K::Channel(c) = &mut s.k else { return };
            if c.n_senders() >= 4 {
                return;
            }
            if let Some(tx) = c.senders.first().cloned() {
                c.senders.push(tx);
            } else if let Some(tx) = c.ssenders.first().cloned() {
                c.ssenders.push(tx);
            }
        }
        Op::DropSender(id) => {
            let (a, b) = {
                let mut st = sim.st.borrow_mut();
                let Some(s) = st.srcs.get_mut(id) else { return };
                let K::Channel(c) = &mut s.k else { return };
                (c.senders.pop(), c.ssenders.pop())
            };
            drop(a);
            drop(b);
        }
        Op::PeerWrite(id, n) => {
            if matches!(sim.st.borrow().srcs.get(id).map(|s| &s.k), Some(K::Trans(_))) {
                crate::transient::peer_write(sim, *id, *n);
                return;
            }
            let mut st = sim.st.borrow_mut();
            let Some(s) = st.srcs.get_mut(id) else { return };
            if let K::Life(l) = &s.k {
                if let Some((_, peer)) = &l.sock {
                    os::write(peer.as_raw_fd(), &vec![3u8; (*n).max(1) as usize]);
                }
                return;
            }
            let K::Generic(g) = &mut s.k else { return };
            let Some(peer) = &g.peer else { return };
            let own = g.own.0.as_raw_fd();
            let was_readable = os::poll_revents(own) & os::PIN != 0;
            let data: Vec<u8> = (0..*n).map(|i| ((g.written + i as u64) % 251) as u8).collect();
            let w = os::write(peer.as_raw_fd(), &data);
            if w > 0 {
                g.written += w as u64;
                if !was_readable {
                    g.edge_r = true;
                }
            }
        }
        Op::PeerRead(id, n) => {
            let mut st = sim.st.borrow_mut();
            let Some(s) = st.srcs.get_mut(id) else { return };
            let K::Generic(g) = &mut s.k else { return };
            let Some(peer) = &g.peer else { return };
            let own = g.own.0.as_raw_fd();
            let was_writable = os::poll_revents(own) & os::POUT != 0;
            let got = os::read(peer.as_raw_fd(), *n as usize);
            if !got.is_empty() && !was_writable && os::poll_revents(own) & os::POUT != 0 {
                g.edge_w = true;
            }
        }
        Op::FillOut(id) => {
            let mut st = sim.st.borrow_mut();
            let Some(s) = st.srcs.get_mut(id) else { return };
            let K::Generic(g) = &mut s.k else { return };
            if g.fdkind == FdKind::PipeR {
                return;
            }
            let own = g.own.0.as_raw_fd();
            let chunk = vec![0x5au8; 4096];
            for _ in 0..256 {
                if os::write(own, &chunk) <= 0 {
                    break;
                }
            }
        }
        Op::PeerClose(id) => {
            let peer = {
                let mut st = sim.st.borrow_mut();
                let Some(s) = st.srcs.get_mut(id) else { return };
                let K::Generic(g) = &mut s.k else { return };
                let p = g.peer.take();
                if p.is_some() {
                    g.edge_owed = true;
                }
                p
            };
            drop(peer);
        }
        Op::OwnRead(id, n) => {
            let mut st = sim.st.borrow_mut();
            let Some(s) = st.srcs.get_mut(id) else { return };
            let K::Generic(g) = &mut s.k else { return };
            if g.fdkind == FdKind::PipeW {
                return;
            }
            let got = os::read(g.own.0.as_raw_fd(), *n as usize);
            g.read += got.len() as u64;
        }
        Op::TimerSet(id, dl) => {
            let Some(h) = handle(sim) else { return };
            let Some((tok, disp, inserted, enabled)) = ({
                let st = sim.st.borrow();
                st.srcs.get(id).and_then(|s| match &s.k {
                    K::Timer(t) => t.disp.clone().filter(|_| !s.old_loop).and_then(|d| s.token.map(|tok| (tok, d, s.inserted, s.enabled))),
                    _ => None,
                })
            }) else {
                return;
            };
            // as_source_mut on the running source is a documented exclusion; set_deadline on
            // a disabled/removed timer is applied to the source only
            if in_own_processing(sim, *id) {
                return;
            }
            let d_ns = deadline_ns(sim, *dl);
            match d_ns {
                Some(d_ns) => {
                    let inst = sim.instant_at(d_ns);
                    if guarded(sim, "as_source_mut", || disp.as_source_mut().inner.set_deadline(inst)).is_none() {
                        return;
                    }
                }
                None => {
                    // set_duration(Duration::MAX): the deadline cannot be represented, the timer
                    // is parked (an armed one has to leave the wheel at the update that follows)
                    if guarded(sim, "as_source_mut", || disp.as_source_mut().inner.set_duration(Duration::MAX)).is_none() {
                        return;
                    }
                    sim.probe("timer_parked_by_set_duration_max");
                }
            }
            {
                let mut st = sim.st.borrow_mut();
                if let K::Timer(t) = &mut st.srcs.get_mut(id).unwrap().k {
                    t.deadline = d_ns;
                }
            }
            drop(disp);
            if inserted && enabled {
                let _ = tok;
                exec_op(sim, &Op::Update(*id), in_cb);
                if in_cb {
                    sim.probe("timer_rearmed_by_other_callback");
                }
            }
        }
        Op::GenericSet(id, interest, mode) => {
            let Some((disp, inserted, enabled)) = ({
                let st = sim.st.borrow();
                st.srcs.get(id).and_then(|s| match &s.k {
                    K::Generic(g) => g.disp.clone().map(|d| (d, s.inserted, s.enabled)),
                    _ => None,
                })
            }) else {
                return;
            };
            if in_own_processing(sim, *id) {
                return;
            }
            let (i, m) = (*interest, *mode);
            if guarded(sim, "as_source_mut", || {
                let mut s = disp.as_source_mut();
                if let Some(g) = s.inner.g.as_mut() {
                    g.interest = interest_of(i);
                    // 9 = leave the mode as it is
                    if m != 9 {
                        g.mode = mode_of(m);
                    }
                }
            })
            .is_none()
            {
                return;
            }
            {
                let mut st = sim.st.borrow_mut();
                if let K::Generic(g) = &mut st.srcs.get_mut(id).unwrap().k {
                    g.interest = i;
                    if m != 9 {
                        g.mode = m;
                    }
                }
            }
            drop(disp);
            if inserted && enabled {
                exec_op(sim, &Op::Update(*id), in_cb);
            }
        }
        Op::InsertIdle { id, ops } => {
            let Some(h) = handle(sim) else { return };
            if sim.st.borrow().idles.contains_key(id) {
                return;
            }
            let ctr = Rc::new(Cell::new(0));
            let guard = DropCtr(ctr.clone());
            let id2 = *id;
            let Some(idle) = guarded(sim, "insert_idle", || {
                h.insert_idle(move |tag: &mut Tag| {
                    let _g = guard;
                    cb::on_idle(id2, tag);
                })
            }) else {
                return;
            };
            let (dn, in_dispatch) = {
                let hk = sim.hk.borrow();
                (hk.dispatch_no, hk.in_dispatch)
            };
            let mut st = sim.st.borrow_mut();
            let phase = st.idle_phase && in_dispatch;
            st.idles.insert(
                *id,
                IdleSt {
                    handle: Some(idle),
                    state: IdleState::Pending,
                    ops: Some(ops.clone()),
                    inserted_in_dispatch: if in_dispatch { Some(dn) } else { None },
                    inserted_in_idle_phase: phase,
                    drop_ctr: ctr,
                    running: false,
                },
            );
            st.idle_queue.push(*id);
            drop(st);
            if phase {
                sim.probe("idle_inserted_by_idle");
            } else if in_cb {
                sim.probe("idle_inserted_by_callback");
            }
        }
        Op::CancelIdle(id) => {
            let h = {
                let mut st = sim.st.borrow_mut();
                let Some(i) = st.idles.get_mut(id) else { return };
                if i.running {
                    return; // an idle cancelling itself is not a listed operation
                }
                let h = i.handle.take();
                if h.is_some() && i.state == IdleState::Pending {
                    i.state = IdleState::Cancelled;
                    sim_probe_later(sim, "idle_cancelled");
                }
                h
            };
            if let Some(h) = h {
                guarded(sim, "idle.cancel", || h.cancel());
            }
        }
        Op::DropIdle(id) => {
            let h = {
                let mut st = sim.st.borrow_mut();
                let Some(i) = st.idles.get_mut(id) else { return };
                i.handle.take()
            };
            drop(h);
        }
        Op::Stop => {
            let Some(s) = sim.st.borrow().signal.clone() else { return };
            sim.st.borrow_mut().stop_requested = true;
            s.stop();
            sim.probe(if in_cb { "stop_in_callback" } else { "stop_top_level" });
        }
        Op::Wakeup => {
            let s = sim.st.borrow().signal.clone();
            if let Some(s) = s {
                s.wakeup();
                sim.st.borrow_mut().wakeup_outstanding = true;
            }
        }
        Op::Advance(ns) => {
            if sim.hk.borrow().in_dispatch {
                return; // time only moves inside the wait or between steps
            }
            let target = sim.now_ns().saturating_add(*ns);
            loop {
                let next = sim.st.borrow().env.front().map(|e| e.at);
                match next {
                    Some(at) if at <= target => {
                        if at > sim.now_ns() {
                            sim.clock.set(at);
                        }
                        run_due_env(sim);
                    }
                    _ => break,
                }
            }
            sim.clock.set(target);
        }
        Op::TakeSource(id) => take_source(sim, *id),
        Op::DropDispatcher(id) => drop_kept(sim, *id),
        Op::FailNext { id, what, nth } => {
            let st = sim.st.borrow();
            if let Some(s) = st.srcs.get(id) {
                s.sh.fail.borrow_mut().push((*what, *nth));
            }
        }
        other => crate::ops2::exec_op2(sim, other, in_cb),
    }
}

/// C08 coverage: (running source kind, operation, target kind, aimed at itself?) cells of
/// the re-entrancy matrix exercised from inside callbacks.
fn c08_cell(sim: &Sim, op: &Op) {
    let (running, target, same) = {
        let st = sim.st.borrow();
        let run_id = st.cur_event.last().copied().filter(|i| *i != u32::MAX);
        let running = match run_id {
            Some(i) => st.srcs.get(&i).map(|s| s.k.name()).unwrap_or("?"),
            None => {
                if st.cur_idle.is_some() {
                    "idle"
                } else {
                    "?"
                }
            }
        };
        let tid = op_target(op);
        let target = tid.and_then(|t| st.srcs.get(&t)).map(|s| s.k.name()).unwrap_or("-");
        (running, target, tid.is_some() && tid == run_id)
    };
    let cell = format!("{}|{}|{}{}", running, op.name(), target, if same { "|self" } else { "" });
    let mut h = crate::rng::Fp::default();
    h.add_str(&cell);
    {
        let mut hk = sim.hk.borrow_mut();
        *hk.c08_cells.entry(cell).or_insert(0) += 1;
    }
    sim.rule_ok(&["C08"], h.0);
}

pub fn op_target(op: &Op) -> Option<Id> {
    match op {
        Op::Remove(i) | Op::Disable(i) | Op::Enable(i) | Op::Update(i) | Op::Ping(i) | Op::ClonePing(i) | Op::DropPing(i) | Op::Send(i) | Op::CloneSender(i) | Op::DropSender(i) | Op::PeerClose(i) | Op::FillOut(i) | Op::TakeSource(i) | Op::DropDispatcher(i) | Op::Wake(i) | Op::StreamPush(i) | Op::StreamEnd(i) | Op::TrRemove(i) | Op::TrMap(i) | Op::AdapterIntoInner(i) | Op::AdapterDrop(i) => Some(*i),
        Op::PeerWrite(i, _) | Op::PeerRead(i, _) | Op::OwnRead(i, _) | Op::TimerSet(i, _) | Op::PingChild(i, _) | Op::ArmChildTimer(i, _, _) | Op::DropChildPing(i, _) | Op::TrReplace(i, _) | Op::TrChildRet(i, _) => Some(*i),
        Op::GenericSet(i, _, _) | Op::PeerWriteChild(i, _, _) => Some(*i),
        Op::Schedule { exec, .. } => Some(*exec),
        Op::FailNext { id, .. } => Some(*id),
        _ => None,
    }
}

fn sim_probe_later(sim: &Sim, name: &'static str) {
    // st is borrowed by the caller; probes live in hk
    sim.probe(name);
}

/// enable/disable/update with a dead token must return InvalidToken
fn stale_result(sim: &Sim, id: Id, what: &str, r: calloop::Result<()>) {
    match r {
        Err(calloop::Error::InvalidToken) => {
            sim.probe("stale_token_rejected");
            sim.rule_ok(&["C06"], 78);
        }
        other => {
            sim.violate(
                "token.stale_not_rejected",
                vec![what.to_string()],
                format!("{}() with the dead token of removed source {} returned {:?} instead of InvalidToken", what, id, other.map_err(|e| e.to_string())),
            );
        }
    }
}

fn insert_generic(sim: &Sim, id: Id, fd: FdSpec, interest: u8, mode: u8, keep: bool, script: &Script) {
    let Some(h) = handle(sim) else { return };
    if sim.st.borrow().srcs.contains_key(&id) {
        return;
    }
    let mut natural_fail = false;
    let (own, peer, fdkind): (SharedFd, Option<OwnedFd>, FdKind) = match fd {
        FdSpec::Sock => {
            let (a, b) = os::socketpair();
            os::set_sndbuf(a.as_raw_fd(), 4096);
            (SharedFd(Rc::new(a)), Some(b), FdKind::Sock)
        }
        FdSpec::PipeR => {
            let (r, w) = os::pipe();
            (SharedFd(Rc::new(r)), Some(w), FdKind::PipeR)
        }
        FdSpec::PipeW => {
            let (r, w) = os::pipe();
            os::set_pipe_size(w.as_raw_fd(), 4096);
            (SharedFd(Rc::new(w)), Some(r), FdKind::PipeW)
        }
        FdSpec::DupOf(o) => {
            let st = sim.st.borrow();
            let Some(s) = st.srcs.get(&o) else { return };
            let K::Generic(g) = &s.k else { return };
            // only attempted while the other source has the fd registered (so that it must
            // fail): two live sources never share an fd, that would be the program's bug
            if !(s.inserted && s.enabled) || s.indeterminate || g.unusable {
                return;
            }
            natural_fail = true;
            (g.own.clone(), None, g.fdkind)
        }
        FdSpec::Released(o) => {
            let st = sim.st.borrow();
            let Some(s) = st.srcs.get(&o) else { return };
            let K::Generic(g) = &s.k else { return };
            // the fd is free again: handed back by TakeSource, or its source was removed from the
            // loop while the program still holds it (an unregistered Generic that is dropped
            // later must not touch what the fd is registered for by then)
            let removed_but_kept = s.kept && !s.inserted && s.token.is_some() && s.in_processing == 0 && !s.sh.unwrapped.get() && !s.old_loop;
            // ... or its source is merely disabled: the fd is not in the poller, somebody else may
            // register it (the disabled source is not enabled again while that lasts, see Enable)
            let disabled = s.inserted && !s.enabled && s.in_processing == 0 && !s.sh.unwrapped.get() && !s.old_loop && s.deferred.is_none();
            if !(g.released || removed_but_kept || disabled) || s.indeterminate || g.unusable && !g.released {
                return;
            }
            if disabled {
                sim.probe("fd_of_disabled_source_inserted_again");
            } else if !g.released {
                sim.probe("fd_of_kept_removed_source_inserted_again");
            }
            // already re-inserted by somebody else - or by somebody who removed itself in its own
            // callback, which is still running (its fd leaves the poller when that ends)
            if st.srcs.values().any(|o2| (o2.inserted || o2.in_processing > 0) && matches!(&o2.k, K::Generic(g2) if Rc::ptr_eq(&g2.own.0, &g.own.0))) {
                return;
            }
            natural_fail = g.unusable;
            (g.own.clone(), None, g.fdkind)
        }
        FdSpec::Closed | FdSpec::RegularFile => {
            natural_fail = true;
            let f = std::fs::File::open("/proc/self/cmdline").or_else(|_| std::fs::File::open("/etc/hostname"));
            let Ok(f) = f else { return };
            (SharedFd(Rc::new(OwnedFd::from(f))), None, FdKind::Sock)
        }
    };
    insert_generic_with(sim, h, id, own, peer, fdkind, interest, mode, keep, script, natural_fail, matches!(fd, FdSpec::DupOf(_)))
}

#[allow(clippy::too_many_arguments)]
fn insert_generic_with(
    sim: &Sim,
    h: calloop::LoopHandle<'static, Tag>,
    id: Id,
    own: SharedFd,
    peer: Option<OwnedFd>,
    fdkind: FdKind,
    interest: u8,
    mode: u8,
    keep: bool,
    script: &Script,
    natural_fail: bool,
    is_dup: bool,
) {
    let sh = WrapShared::new(id);
    let cbd = Rc::new(Cell::new(0));
    let guard = DropCtr(cbd.clone());
    let source = Holder { g: Some(Generic::new(own.clone(), interest_of(interest), mode_of(mode))), sh: sh.clone() };
    let disp = Dispatcher::new(Wrap::new(source, sh.clone()), move |ev, _meta, tag: &mut Tag| {
        let _g = &guard;
        cb::on_generic(id, ev, tag)
    });
    let mut src = new_src(
        id,
        script,
        K::Generic(GenK {
            own,
            peer,
            fdkind,
            interest,
            mode,
            reg_interest: interest,
            reg_mode: mode,
            oneshot_armed: false,
            edge_owed: false,
            edge_r: false,
            edge_w: false,
            disp: if keep { Some(disp.clone()) } else { None },
            released: false,
            ret_in_pe: None,
            unusable: natural_fail && !is_dup,
            written: 0,
            read: 0,
        }),
        sh,
        cbd,
    );
    src.kept = keep;
    let r = guarded(sim, "register_dispatcher", || h.register_dispatcher(disp).map_err(|e| e.to_string()));
    let Some(r) = r else { return };
    let failed = r.is_err();
    if failed && keep {
        // the program's clone is the only owner now; release it like the loop released its own
        if let K::Generic(g) = &mut src.k {
            g.disp = None;
        }
        src.kept = false;
    }
    if natural_fail {
        sim.probe(if is_dup { "duplicate_fd_insert" } else { "unusable_fd_insert" });
    }
    finish_insert(sim, id, src, r, natural_fail);
    if failed && natural_fail {
        sim.rule_ok(&["C15"], 31);
    }
}

/// register_dispatcher() of a Dispatcher the program kept, for a source that is not inserted
/// (removed earlier, or left behind by a loop that has been dropped).
fn reinsert_kept(sim: &Sim, id: Id) {
    let Some(h) = handle(sim) else { return };
    enum D {
        G(Dispatcher<'static, GenSrc, Tag>),
        T(Dispatcher<'static, TimerSrc, Tag>),
    }
    let disp = {
        let st = sim.st.borrow();
        let Some(s) = st.srcs.get(&id) else { return };
        if s.inserted || !s.kept || s.indeterminate || s.in_processing > 0 || s.sh.unwrapped.get() {
            return;
        }
        match &s.k {
            // a timer the program kept (its deadline is an absolute instant: it goes on in
            // whichever loop it is registered with next)
            K::Timer(t) if !sim.hk.borrow().in_dispatch => t.disp.clone().map(D::T),
            K::Generic(g) if !g.released && !g.unusable => {
                // two live sources never share an fd (that would be the program's bug)
                if st.srcs.iter().any(|(i, o2)| *i != id && (o2.inserted || o2.in_processing > 0) && matches!(&o2.k, K::Generic(g2) if Rc::ptr_eq(&g2.own.0, &g.own.0))) {
                    return;
                }
                g.disp.clone().map(D::G)
            }
            _ => None,
        }
    };
    let Some(disp) = disp else { return };
    let r = guarded(sim, "register_dispatcher", || match disp {
        D::G(d) => h.register_dispatcher(d).map_err(|e| e.to_string()),
        D::T(d) => h.register_dispatcher(d).map_err(|e| e.to_string()),
    });
    let Some(r) = r else { return };
    let fault = std::mem::replace(&mut sim.hk.borrow_mut().fault_window, false);
    let now = sim.now_ns();
    let mut st = sim.st.borrow_mut();
    let s = st.srcs.get_mut(&id).unwrap();
    s.exp[0] += 1;
    match r {
        Ok(tok) => {
            s.token = Some(tok);
            s.reg_key = Some(tok.verif_key());
            s.inserted = true;
            s.enabled = true;
            s.removed_in_own_cb = false;
            s.old_loop = false;
            model_reregistered(s, now);
            if fault {
                s.indeterminate = true;
            }
            st.key_to_id.insert(tok.verif_key(), id);
            drop(st);
            sim.probe("kept_dispatcher_reinserted");
        }
        Err(e) => {
            if fault {
                s.indeterminate = true;
            } else {
                drop(st);
                sim.violate("op.unexpected_result", vec!["reinsert".into()], format!("registering the kept dispatcher of source {} again failed: {}", id, e));
            }
        }
    }
}

/// Dispatcher::into_source_inner on a kept dispatcher of a removed source.
fn take_source(sim: &Sim, id: Id) {
    enum D {
        T(Dispatcher<'static, TimerSrc, Tag>),
        G(Dispatcher<'static, GenSrc, Tag>),
    }
    let d = {
        let mut st = sim.st.borrow_mut();
        let Some(s) = st.srcs.get_mut(&id) else { return };
        if s.inserted || s.in_processing > 0 || !s.kept || s.indeterminate {
            return;
        }
        // "by the end of the dispatch in progress": only outside a dispatch
        if sim.hk.borrow().in_dispatch {
            return;
        }
        s.kept = false;
        match &mut s.k {
            K::Timer(t) => t.disp.take().map(D::T),
            K::Generic(g) => g.disp.take().map(D::G),
            _ => None,
        }
    };
    let Some(d) = d else { return };
    let r = catch_unwind(AssertUnwindSafe(move || match d {
        D::T(d) => {
            let s = d.into_source_inner();
            drop(s);
        }
        D::G(d) => {
            let s = d.into_source_inner();
            // unwrap() must leave the fd unregistered so it can be inserted again
            let w = s;
            drop(w);
        }
    }));
    match r {
        Ok(()) => {
            let mut st = sim.st.borrow_mut();
            if let K::Generic(g) = &mut st.srcs.get_mut(&id).unwrap().k {
                g.released = true;
            }
            drop(st);
            sim.probe("take_source_ok");
            sim.rule_ok(&["C06"], 79);
        }
        Err(p) => {
            sim.violate("release.take_failed", vec![], format!("into_source_inner on removed source {} panicked: {}", id, panic_msg(&p)));
        }
    }
}

pub fn drop_kept(sim: &Sim, id: Id) {
    let d: Option<Box<dyn std::any::Any>> = {
        let mut st = sim.st.borrow_mut();
        let Some(s) = st.srcs.get_mut(&id) else { return };
        if !s.kept {
            return;
        }
        s.kept = false;
        match &mut s.k {
            K::Timer(t) => t.disp.take().map(|d| Box::new(d) as Box<dyn std::any::Any>),
            K::Trans(t) => t.disp.take().map(|d| Box::new(d) as Box<dyn std::any::Any>),
            K::Sig(t) => t.disp.take().map(|d| Box::new(d) as Box<dyn std::any::Any>),
            K::Generic(g) => {
                if !s.inserted {
                    g.released = true;
                }
                g.disp.take().map(|d| Box::new(d) as Box<dyn std::any::Any>)
            }
            _ => None,
        }
    };
    let _ = catch_unwind(AssertUnwindSafe(move || drop(d)));
}

/// An injected registration fault makes exactly the owner of that fd indeterminate - also
/// when the failing call was made deep inside something else (an adapter unregistering itself
/// while the executor that owns its future is being dropped).
pub fn attribute_faults(sim: &Sim) {
    let fds: Vec<i32> = std::mem::take(&mut sim.hk.borrow_mut().faulted_fds);
    if fds.is_empty() {
        return;
    }
    let Ok(mut st) = sim.st.try_borrow_mut() else {
        sim.hk.borrow_mut().faulted_fds = fds;
        return;
    };
    let mut n_ad = 0;
    for a in st.adapters.values_mut() {
        if fds.contains(&a.own.0.as_raw_fd()) && !a.indeterminate {
            a.indeterminate = true;
            n_ad += 1;
        }
    }
    st.adapters_indeterminate += n_ad;
    for s in st.srcs.values_mut() {
        if let K::Generic(g) = &s.k {
            if fds.contains(&g.own.0.as_raw_fd()) {
                s.indeterminate = true;
            }
        }
    }
}

/// Environment events stand for things other threads / peers do while the loop sleeps: only
/// operations on thread-safe handles and on peer fds qualify, never LoopHandle operations.
pub fn env_allowed(op: &Op) -> bool {
    matches!(
        op,
        Op::Ping(_)
            | Op::ClonePing(_)
            | Op::DropPing(_)
            | Op::Send(_)
            | Op::CloneSender(_)
            | Op::DropSender(_)
            | Op::PeerWrite(..)
            | Op::PeerRead(..)
            | Op::FillOut(_)
            | Op::PeerClose(_)
            | Op::Wake(_)
            | Op::StreamPush(_)
            | Op::StreamPushMany(..)
            | Op::StreamEnd(_)
            | Op::Wakeup
            | Op::Stop
            | Op::AdapterPeerWrite(..)
            | Op::AdapterPeerRead(..)
            | Op::AdapterPeerClose(_)
            | Op::AdapterPeerLastWords(..)
            | Op::PingChild(..)
            | Op::PeerWriteChild(..)
            | Op::Raise(_)
            | Op::Kill(_)
    )
}

/// Execute the environment events that are due at the current virtual time.
pub fn run_due_env(sim: &Sim) {
    loop {
        let ev = {
            let mut st = sim.st.borrow_mut();
            match st.env.front() {
                Some(e) if e.at <= sim.now_ns() => st.env.pop_front(),
                _ => None,
            }
        };
        let Some(ev) = ev else { break };
        if !env_allowed(&ev.op) {
            continue;
        }
        sim.probe("env_fired");
        sim.trace(|| format!("  env@{} {:?}", ev.at, ev.op));
        exec_op(sim, &ev.op, false);
    }
}
