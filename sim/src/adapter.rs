//! C17 harness (and the adapter parts of C15 / C16): `LoopHandle::adapt_io` adapters over
//! socketpairs and pipes with small buffers, hand-written futures that move bytes through
//! AsyncRead / AsyncWrite / readable() / writable(), raw peers driven by the program.

use std::cell::Cell;
use std::future::Future;
use std::io::{IoSlice, IoSliceMut};
use std::os::fd::{AsRawFd, OwnedFd};
use std::pin::Pin;
use std::rc::Rc;
use std::task::{Context, Poll};

use calloop::io::Async;
use futures_io::{AsyncRead, AsyncWrite};

use crate::model::*;
use crate::ops::{guarded, DropCtr};
use crate::os;
use crate::program::*;
use crate::sim::*;

/// The object handed to adapt_io: Read + Write over the shared fd.
#[derive(Debug)]
pub struct IoObj(pub SharedFd, pub bool);

impl std::os::fd::AsFd for IoObj {
    fn as_fd(&self) -> std::os::fd::BorrowedFd<'_> {
        self.0 .0.as_fd_compat()
    }
}

trait AsFdCompat {
    fn as_fd_compat(&self) -> std::os::fd::BorrowedFd<'_>;
}

impl AsFdCompat for Rc<OwnedFd> {
    fn as_fd_compat(&self) -> std::os::fd::BorrowedFd<'_> {
        std::os::fd::AsFd::as_fd(&**self)
    }
}

impl std::io::Read for IoObj {
    fn read(&mut self, buf: &mut [u8]) -> std::io::Result<usize> {
        let r = unsafe { libc::read(self.0 .0.as_raw_fd(), buf.as_mut_ptr() as *mut libc::c_void, buf.len()) };
        if r < 0 {
            Err(std::io::Error::last_os_error())
        } else {
            Ok(r as usize)
        }
    }
}

impl std::io::Write for IoObj {
    fn write(&mut self, buf: &[u8]) -> std::io::Result<usize> {
        let r = unsafe { libc::write(self.0 .0.as_raw_fd(), buf.as_ptr() as *const libc::c_void, buf.len()) };
        if r < 0 {
            Err(std::io::Error::last_os_error())
        } else {
            Ok(r as usize)
        }
    }
    fn flush(&mut self) -> std::io::Result<()> {
        // "flushy": there is something left to drain as long as the fd takes nothing
        if self.1 && os::poll_revents(self.0 .0.as_raw_fd()) & (os::POUT | os::PHUP | os::PERR) == 0 {
            return Err(std::io::ErrorKind::WouldBlock.into());
        }
        Ok(())
    }
}

#[derive(Clone, Copy, Debug, PartialEq, Eq)]
pub enum AdState {
    /// adapter alive, held by the program
    Held,
    /// adapter alive, owned by a task
    InTask(Id),
    /// adapter alive, owned by an inserted source that drops it from inside one of its own
    /// register / reregister / unregister calls (the poller is borrowed there)
    Given(Id),
    Dropped,
    IntoInner,
    /// adapt_io failed
    Failed,
}

pub struct AdapterM {
    pub own: SharedFd,
    pub peer: Option<OwnedFd>,
    pub fdkind: FdKind,
    pub adapter: Option<Async<'static, IoObj>>,
    pub state: AdState,
    pub was_nonblocking: bool,
    pub key: Option<u64>,
    /// stream positions (pattern byte at position p is p % 251)
    pub peer_wrote: u64,
    pub task_read: u64,
    pub task_wrote: u64,
    pub peer_read: u64,
    pub indeterminate: bool,
}

pub struct IoTaskM {
    pub adapter: Id,
    pub kind: u8,
    pub waiting: bool,
    /// the waker handed to the adapter has been invoked since the task last went to sleep
    pub woken: bool,
    pub starved: u32,
    pub ready_at_wait: bool,
    pub polls_at_wait: u32,
}

pub fn pattern(pos: u64) -> u8 {
    (pos % 251) as u8
}

pub fn alive(s: AdState) -> bool {
    matches!(s, AdState::Held | AdState::InTask(_) | AdState::Given(_))
}

pub fn adapt_io(sim: &Sim, id: Id, fd: FdSpec, blocking: bool, flushy: bool) {
    let Some(h) = sim.st.borrow().handle.clone() else { return };
    if sim.st.borrow().adapters.contains_key(&id) {
        return;
    }
    let mut natural_fail = false;
    let mut inherit: Option<Id> = None;
    let (own, mut peer, fdkind) = match fd {
        FdSpec::PipeR => {
            let (r, w) = os::pipe();
            (SharedFd(Rc::new(r)), Some(w), FdKind::PipeR)
        }
        FdSpec::PipeW => {
            let (r, w) = os::pipe();
            os::set_pipe_size(w.as_raw_fd(), 4096);
            (SharedFd(Rc::new(w)), Some(r), FdKind::PipeW)
        }
        FdSpec::DupOf(o) => {
            let st = sim.st.borrow();
            let Some(a) = st.adapters.get(&o) else { return };
            if !alive(a.state) || a.indeterminate {
                return;
            }
            natural_fail = true;
            (a.own.clone(), None, a.fdkind)
        }
        FdSpec::Released(o) => {
            let st = sim.st.borrow();
            let Some(a) = st.adapters.get(&o) else { return };
            if alive(a.state) || a.indeterminate || a.state == AdState::Failed {
                return;
            }
            if st.adapters.values().any(|b| alive(b.state) && Rc::ptr_eq(&b.own.0, &a.own.0)) {
                return;
            }
            // the byte stream of this fd goes on: inherit peer and positions from whichever dead
            // adapter over the same fd holds them now
            let holder = st.adapters.iter().filter(|(_, b)| Rc::ptr_eq(&b.own.0, &a.own.0)).max_by_key(|(_, b)| (b.peer.is_some(), b.peer_wrote + b.task_read + b.task_wrote + b.peer_read)).map(|(i, _)| *i);
            inherit = holder.or(Some(o));
            (a.own.clone(), None, a.fdkind)
        }
        FdSpec::Closed | FdSpec::RegularFile => {
            natural_fail = true;
            let Ok(f) = std::fs::File::open("/proc/self/cmdline") else { return };
            (SharedFd(Rc::new(OwnedFd::from(f))), None, FdKind::Sock)
        }
        _ => {
            let (a, b) = os::socketpair();
            os::set_sndbuf(a.as_raw_fd(), 4096);
            os::set_sndbuf(b.as_raw_fd(), 4096);
            (SharedFd(Rc::new(a)), Some(b), FdKind::Sock)
        }
    };
    let raw = own.0.as_raw_fd();
    if fd != FdSpec::DupOf(0) && !matches!(fd, FdSpec::DupOf(_)) {
        os::set_nonblocking(raw, !blocking);
    }
    let was_nb = os::is_nonblocking(raw);
    let before = h.verif_stats();
    let Some(r) = guarded(sim, "adapt_io", || h.adapt_io(IoObj(own.clone(), flushy))) else { return };
    let fault = std::mem::replace(&mut sim.hk.borrow_mut().fault_window, false);
    let mut counters = (0, 0, 0, 0);
    if let Some(o) = inherit {
        // the same byte stream goes on under a new adapter
        let mut st = sim.st.borrow_mut();
        if let Some(a) = st.adapters.get_mut(&o) {
            peer = a.peer.take();
            counters = (a.peer_wrote, a.task_read, a.task_wrote, a.peer_read);
        }
    }
    let mut m = AdapterM { own, peer, fdkind, adapter: None, state: AdState::Failed, was_nonblocking: was_nb, key: None, peer_wrote: counters.0, task_read: counters.1, task_wrote: counters.2, peer_read: counters.3, indeterminate: false };
    match r {
        Ok(a) => {
            m.adapter = Some(a);
            m.state = AdState::Held;
            let epfd = sim.hk.borrow().epfd;
            m.key = os::epoll_table(epfd).into_iter().find(|e| e.tfd == raw && e.data != u64::MAX).map(|e| e.data);
            if fault {
                m.indeterminate = true;
            }
            let key = m.key;
            let mut st = sim.st.borrow_mut();
            st.live_adapters += 1;
            if let Some(k) = key {
                st.adapter_keys.insert(k as usize, id);
            }
            if m.indeterminate {
                st.adapters_indeterminate += 1;
            }
            st.adapters.insert(id, m);
            drop(st);
            if natural_fail {
                sim.violate("op.unexpected_result", vec!["adapt_io_should_fail".into()], format!("adapt_io of adapter {} over an unusable fd succeeded", id));
                return;
            }
            if !os::is_nonblocking(raw) {
                sim.violate("io.not_nonblocking", vec![], format!("adapter {}: the fd is still blocking after adapt_io", id));
                return;
            }
            sim.rule_ok(&["C17", "C16"], 170);
        }
        Err(e) => {
            sim.trace(|| format!("  adapt_io {} failed: {}", id, e));
            sim.probe("adapt_io_failed");
            let is_dup = matches!(fd, FdSpec::DupOf(_));
            sim.st.borrow_mut().adapters.insert(id, m);
            if !fault && !natural_fail {
                sim.violate("op.unexpected_result", vec!["adapt_io_failed".into()], format!("adapt_io of adapter {} failed without any fault: {}", id, e));
                return;
            }
            // the loop must be as if the call had not been made
            let after = h.verif_stats();
            if after.occupied_slots != before.occupied_slots {
                sim.violate_props("stats.occupied_slots", &["C17"], vec!["leak".into(), "failed_adapt_io".into()], format!("a failed adapt_io left {} more occupied slot(s) behind", after.occupied_slots as i64 - before.occupied_slots as i64));
                return;
            }
            if !is_dup && os::is_nonblocking(raw) != was_nb {
                sim.violate("io.flags_not_restored", vec!["failed_adapt_io".into()], format!("a failed adapt_io left O_NONBLOCK={} on an fd that had {}", os::is_nonblocking(raw), was_nb));
                return;
            }
            sim.rule_ok(&["C15"], 171);
        }
    }
}

/// the adapter object is gone (dropped / into_inner): flags restored, fd out of the poller
fn after_release(sim: &Sim, id: Id, how: &'static str) {
    crate::ops::attribute_faults(sim);
    let epfd = sim.hk.borrow().epfd;
    let (raw, was_nb, indet, shared_alive) = {
        let st = sim.st.borrow();
        let a = st.adapters.get(&id).unwrap();
        let shared_alive = st.adapters.iter().any(|(i, b)| *i != id && alive(b.state) && Rc::ptr_eq(&b.own.0, &a.own.0));
        (a.own.0.as_raw_fd(), a.was_nonblocking, a.indeterminate, shared_alive)
    };
    if indet || shared_alive || !sim.st.borrow().loop_alive {
        return;
    }
    if os::is_nonblocking(raw) != was_nb {
        sim.violate("io.flags_not_restored", vec![how.into()], format!("adapter {}: after {} the fd has O_NONBLOCK={}, it had {} before adapt_io", id, how, os::is_nonblocking(raw), was_nb));
        return;
    }
    if os::epoll_table(epfd).iter().any(|e| e.tfd == raw && e.data != u64::MAX) {
        sim.violate_props("table.mismatch", &["C17"], vec!["stale_entry".into(), "adapter".into(), how.into()], format!("adapter {}: after {} its fd is still registered with the poller", id, how));
        return;
    }
    sim.rule_ok(&["C17", "C16"], 172);
}

pub fn release(sim: &Sim, id: Id, into_inner: bool) {
    let a = {
        let mut st = sim.st.borrow_mut();
        let Some(m) = st.adapters.get_mut(&id) else { return };
        if m.state != AdState::Held {
            return;
        }
        m.state = if into_inner { AdState::IntoInner } else { AdState::Dropped };
        let a = m.adapter.take();
        st.live_adapters -= 1;
        a
    };
    let Some(a) = a else { return };
    let r = guarded(sim, if into_inner { "into_inner" } else { "drop(adapter)" }, move || {
        if into_inner {
            let io = a.into_inner();
            drop(io);
        } else {
            drop(a);
        }
    });
    if r.is_some() {
        after_release(sim, id, if into_inner { "into_inner" } else { "drop" });
    }
}

/// Hand a held adapter to an inserted source; the source drops it from inside its next
/// register (when = 2) / reregister (1) / unregister (0) call.
pub fn give_to(sim: &Sim, id: Id, src: Id, when: u8) {
    let mut st = sim.st.borrow_mut();
    let Some(sh) = st.srcs.get(&src).filter(|s| s.inserted && !matches!(s.k, K::Failed)).map(|s| s.sh.clone()) else { return };
    let Some(m) = st.adapters.get_mut(&id) else { return };
    if m.state != AdState::Held || m.indeterminate {
        return;
    }
    let Some(a) = m.adapter.take() else { return };
    m.state = AdState::Given(src);
    drop(st);
    sh.victims.borrow_mut().push((when % 3, id, Box::new(a)));
    sim.probe("adapter_given_to_source");
}

/// Called by the wrapper right after it dropped an adapter it had been given.
pub fn dropped_inside(id: Id, how: &'static str) {
    let Some(sim) = try_cur() else { return };
    {
        let Ok(mut st) = sim.st.try_borrow_mut() else { return };
        let Some(m) = st.adapters.get_mut(&id) else { return };
        if !matches!(m.state, AdState::Given(_)) {
            return;
        }
        m.state = AdState::Dropped;
        st.live_adapters = st.live_adapters.saturating_sub(1);
    }
    sim.probe("adapter_dropped_inside_registration_call");
    after_release(&sim, id, how);
}

/// End of the run: the program takes back what it lent (an adapter is a strong handle on the
/// loop; one parked inside a source of that loop would be a reference cycle).
pub fn take_back_given(sim: &Sim) {
    let shs: Vec<Rc<crate::wrap::WrapShared>> = sim.st.borrow().srcs.values().map(|s| s.sh.clone()).collect();
    for sh in shs {
        let v: Vec<_> = std::mem::take(&mut *sh.victims.borrow_mut());
        for (_, id, b) in v {
            drop(b);
            dropped_inside(id, "drop");
        }
    }
}

pub fn peer_write(sim: &Sim, id: Id, n: u32) {
    let mut st = sim.st.borrow_mut();
    let Some(a) = st.adapters.get_mut(&id) else { return };
    let Some(p) = &a.peer else { return };
    if a.fdkind == FdKind::PipeW {
        return;
    }
    let data: Vec<u8> = (0..n as u64).map(|i| pattern(a.peer_wrote + i)).collect();
    let w = os::write(p.as_raw_fd(), &data);
    if w > 0 {
        a.peer_wrote += w as u64;
    }
}

pub fn peer_read(sim: &Sim, id: Id, n: u32) {
    let mut st = sim.st.borrow_mut();
    let Some(a) = st.adapters.get_mut(&id) else { return };
    let Some(p) = &a.peer else { return };
    if a.fdkind == FdKind::PipeR {
        return;
    }
    let got = os::read(p.as_raw_fd(), n as usize);
    let mut bad = None;
    for (i, b) in got.iter().enumerate() {
        if *b != pattern(a.peer_read + i as u64) {
            bad = Some(a.peer_read + i as u64);
            break;
        }
    }
    a.peer_read += got.len() as u64;
    drop(st);
    if let Some(pos) = bad {
        sim.violate("io.bytes_corrupted", vec!["write".into()], format!("adapter {}: the peer received a wrong byte at stream position {}", id, pos));
    }
}

pub fn peer_close(sim: &Sim, id: Id) {
    let p = {
        let mut st = sim.st.borrow_mut();
        let Some(a) = st.adapters.get_mut(&id) else { return };
        a.peer.take()
    };
    drop(p);
}

struct IoFut {
    task: Id,
    aid: Id,
    adapter: Option<Async<'static, IoObj>>,
    kind: u8,
    total: u64,
    chunk: usize,
    moved: u64,
    then: u8,
    awaited: bool,
    stalled: u32,
    /// kind 6: a wait in the other direction was started and abandoned
    tried_other: bool,
    proxy: Option<std::task::Waker>,
    _g: DropCtr,
}

impl IoFut {
    fn finish(&mut self, sim: &Sim) {
        let a = self.adapter.take();
        let mut st = sim.st.borrow_mut();
        if let Some(t) = st.io_tasks.get_mut(&self.task) {
            t.waiting = false;
        }
        let Some(m) = st.adapters.get_mut(&self.aid) else { return };
        match self.then {
            0 => {
                m.adapter = a;
                m.state = AdState::Held;
            }
            t => {
                m.state = if t == 2 { AdState::IntoInner } else { AdState::Dropped };
                st.live_adapters -= 1;
                drop(st);
                if let Some(a) = a {
                    if t == 2 {
                        let io = a.into_inner();
                        drop(io);
                    } else {
                        drop(a);
                    }
                }
                after_release(sim, self.aid, if t == 2 { "into_inner" } else { "drop" });
            }
        }
    }
}

impl Drop for IoFut {
    fn drop(&mut self) {
        // dropped before completion (executor destroyed): the adapter goes with it
        if self.adapter.is_some() {
            if let Some(sim) = try_cur() {
                let mut st = sim.st.borrow_mut();
                if let Some(m) = st.adapters.get_mut(&self.aid) {
                    m.state = AdState::Dropped;
                    st.live_adapters = st.live_adapters.saturating_sub(1);
                }
                if let Some(t) = st.io_tasks.get_mut(&self.task) {
                    t.waiting = false;
                }
            }
        }
    }
}

impl Future for IoFut {
    type Output = u64;
    fn poll(mut self: Pin<&mut Self>, cx0: &mut Context<'_>) -> Poll<u64> {
        let sim = cur();
        let this = &mut *self;
        // one proxy per task (as long as the task's own waker stays the same), so that the
        // adapter sees the same waker across polls, as it would without the proxy
        let proxy = match &this.proxy {
            Some(p) => p.clone(),
            None => {
                let p = std::task::Waker::from(std::sync::Arc::new(WakeProxy { task: this.task, inner: cx0.waker().clone() }));
                this.proxy = Some(p.clone());
                p
            }
        };
        let cx = &mut Context::from_waker(&proxy);
        // generic task bookkeeping (runnable / polls / on-loop-thread checks)
        if !crate::exec::note_poll(&sim, this.task) {
            return Poll::Pending;
        }
        let mut buf = vec![0u8; this.chunk.max(1)];
        loop {
            if sim.is_dead() {
                return Poll::Pending;
            }
            if this.moved >= this.total && this.kind == 8 {
                // write, then flush: the task is done when flush() is
                let Some(ad) = this.adapter.as_mut() else { return Poll::Pending };
                match Pin::new(&mut *ad).poll_flush(cx) {
                    Poll::Pending => {
                        sim.probe("io_flush_would_block");
                        set_waiting(&sim, this.task, true);
                        return Poll::Pending;
                    }
                    Poll::Ready(_) => set_waiting(&sim, this.task, false),
                }
            }
            if this.moved >= this.total {
                this.finish(&sim);
                crate::exec::note_done(&sim, this.task);
                return Poll::Ready(this.task as u64);
            }
            let Some(ad) = this.adapter.as_mut() else { return Poll::Pending };
            let want = (this.chunk as u64).min(this.total - this.moved).max(1) as usize;
            let reading = matches!(this.kind, 0 | 2 | 4);
            // kind 6: start waiting for readability, abandon that wait without it firing (the
            // other branch of a select won), then write - the interest must follow
            if this.kind == 6 && !this.tried_other {
                this.tried_other = true;
                let mut f = ad.readable();
                let _ = Pin::new(&mut f).poll(cx);
            }
            // readable()/writable() first, for the kinds that use them
            if matches!(this.kind, 2 | 3) && !this.awaited {
                let ready = if this.kind == 2 {
                    let mut f = ad.readable();
                    Pin::new(&mut f).poll(cx).is_ready()
                } else {
                    let mut f = ad.writable();
                    Pin::new(&mut f).poll(cx).is_ready()
                };
                if !ready {
                    // woken by the adapter, fd ready per poll(2), and still told to wait: fine
                    // once (readiness is recorded by the next event), not again and again
                    let st = sim.st.borrow();
                    let rev = st.adapters.get(&this.aid).map(|m| os::poll_revents(m.own.0.as_raw_fd())).unwrap_or(0);
                    let was_woken = st.io_tasks.get(&this.task).map(|t| t.woken).unwrap_or(false);
                    drop(st);
                    let fd_ready = if this.kind == 2 { rev & (os::PIN | os::PHUP | os::PERR) != 0 } else { rev & (os::POUT | os::PHUP | os::PERR) != 0 };
                    if fd_ready && was_woken {
                        this.stalled += 1;
                        if this.stalled >= 3 {
                            sim.violate("io.no_progress", vec![], format!("task {} was woken {} times for adapter {} whose fd is ready, but readable()/writable() keeps returning Pending", this.task, this.stalled, this.aid));
                            return Poll::Pending;
                        }
                    }
                    set_waiting(&sim, this.task, true);
                    return Poll::Pending;
                }
                this.stalled = 0;
                this.awaited = true;
            }
            // kind 7: a zero-length write (an empty chunk of a forwarding loop) before every real
            // one: it has nothing to wait for and completes at once with Ok(0)
            if this.kind == 7 && !this.awaited {
                this.awaited = true;
                let mut p = Pin::new(&mut *ad);
                let r = if this.moved % 2 == 0 { p.as_mut().poll_write(cx, &[]) } else { p.as_mut().poll_write_vectored(cx, &[]) };
                match r {
                    Poll::Ready(Ok(0)) => {
                        sim.probe("io_empty_write");
                    }
                    Poll::Ready(Err(e)) => {
                        sim.trace(|| format!("    io task {} ends on error {}", this.task, e));
                        this.finish(&sim);
                        crate::exec::note_done(&sim, this.task);
                        return Poll::Ready(this.task as u64);
                    }
                    other => {
                        sim.violate("io.no_progress", vec!["empty_write".into()], format!("task {}: a zero-length write on adapter {} returned {:?} instead of Ready(Ok(0))", this.task, this.aid, other.map(|r| r.map_err(|e| e.to_string()))));
                        return Poll::Pending;
                    }
                }
            }
            let res = if reading {
                let mut p = Pin::new(&mut *ad);
                if this.kind == 4 {
                    let (a, b) = buf[..want].split_at_mut(want / 2);
                    let mut v = [IoSliceMut::new(a), IoSliceMut::new(b)];
                    p.as_mut().poll_read_vectored(cx, &mut v)
                } else {
                    p.as_mut().poll_read(cx, &mut buf[..want])
                }
            } else {
                let pos = sim.st.borrow().adapters.get(&this.aid).map(|m| m.task_wrote).unwrap_or(0);
                for (i, b) in buf[..want].iter_mut().enumerate() {
                    *b = pattern(pos + i as u64);
                }
                let mut p = Pin::new(&mut *ad);
                if this.kind == 5 {
                    let (a, b) = buf[..want].split_at(want / 2);
                    let v = [IoSlice::new(a), IoSlice::new(b)];
                    let r = p.as_mut().poll_write_vectored(cx, &v);
                    if let Poll::Ready(Ok(_)) = r {
                        let _ = p.as_mut().poll_flush(cx);
                    }
                    r
                } else {
                    p.as_mut().poll_write(cx, &buf[..want])
                }
            };
            match res {
                Poll::Pending => {
                    // kinds 2/3 wait with readable()/writable() again after a WouldBlock
                    this.awaited = false;
                    set_waiting(&sim, this.task, true);
                    return Poll::Pending;
                }
                Poll::Ready(Ok(n)) if n > 0 && { this.stalled = 0; false } => unreachable!(),
                Poll::Ready(Err(e)) => {
                    sim.trace(|| format!("    io task {} ends on error {}", this.task, e));
                    sim.probe("io_task_error");
                    if reading && e.raw_os_error() == Some(libc::ECONNRESET) {
                        sim.probe("io_read_reset_by_peer");
                        if !all_delivered(&sim, this.aid, "a connection reset") {
                            return Poll::Pending;
                        }
                    }
                    this.finish(&sim);
                    crate::exec::note_done(&sim, this.task);
                    return Poll::Ready(this.task as u64);
                }
                Poll::Ready(Ok(0)) => {
                    // EOF (or a zero-length transfer): the peer is gone
                    sim.probe("io_task_eof");
                    if reading && !all_delivered(&sim, this.aid, "end of stream") {
                        return Poll::Pending;
                    }
                    this.finish(&sim);
                    crate::exec::note_done(&sim, this.task);
                    return Poll::Ready(this.task as u64);
                }
                Poll::Ready(Ok(n)) => {
                    set_waiting(&sim, this.task, false);
                    let mut st = sim.st.borrow_mut();
                    let Some(m) = st.adapters.get_mut(&this.aid) else { return Poll::Pending };
                    if reading {
                        let mut bad = None;
                        for (i, b) in buf[..n].iter().enumerate() {
                            if *b != pattern(m.task_read + i as u64) {
                                bad = Some(m.task_read + i as u64);
                                break;
                            }
                        }
                        m.task_read += n as u64;
                        let over = m.task_read > m.peer_wrote;
                        drop(st);
                        if let Some(pos) = bad {
                            sim.violate("io.bytes_corrupted", vec!["read".into()], format!("adapter {}: a task read a wrong byte at stream position {}", this.aid, pos));
                            return Poll::Pending;
                        }
                        if over {
                            sim.violate("io.bytes_corrupted", vec!["read".into(), "more_than_written".into()], format!("adapter {}: a task read more bytes than the peer wrote", this.aid));
                            return Poll::Pending;
                        }
                    } else {
                        m.task_wrote += n as u64;
                        drop(st);
                    }
                    this.moved += n as u64;
                    this.awaited = false;
                    sim.rule_ok(&["C17"], 173 + this.kind as u64);
                }
            }
        }
    }
}

/// The stream ended (EOF, or a reset because the peer went away with our bytes unread): the
/// kernel reports that only after everything the peer wrote has been read, so the task must
/// have been given every byte.
fn all_delivered(sim: &Sim, aid: Id, what: &str) -> bool {
    let st = sim.st.borrow();
    let Some(m) = st.adapters.get(&aid) else { return true };
    if m.indeterminate || m.peer.is_some() || !matches!(m.fdkind, FdKind::Sock | FdKind::PipeR) {
        return true;
    }
    if m.task_read < m.peer_wrote {
        let msg = format!("adapter {}: the read side reported {} after handing out {} of the {} bytes the peer wrote before it closed", aid, what, m.task_read, m.peer_wrote);
        drop(st);
        sim.violate("io.bytes_lost", vec![], msg);
        return false;
    }
    drop(st);
    sim.rule_ok(&["C17"], 181);
    true
}

fn set_waiting(sim: &Sim, task: Id, w: bool) {
    if let Some(t) = sim.st.borrow_mut().io_tasks.get_mut(&task) {
        t.waiting = w;
        t.woken = false;
        if !w {
            t.starved = 0;
        }
    }
}

/// The waker the adapter gets: records that it was invoked, then forwards to the task's own.
struct WakeProxy {
    task: Id,
    inner: std::task::Waker,
}

impl std::task::Wake for WakeProxy {
    fn wake(self: std::sync::Arc<Self>) {
        self.wake_by_ref()
    }
    fn wake_by_ref(self: &std::sync::Arc<Self>) {
        if let Some(sim) = try_cur() {
            let mut st = sim.st.borrow_mut();
            if let Some(t) = st.io_tasks.get_mut(&self.task) {
                t.woken = true;
            }
            if let Some(t) = st.tasks.get_mut(&self.task) {
                if !t.done {
                    t.runnable = true;
                }
            }
        }
        self.inner.wake_by_ref();
    }
}

#[allow(clippy::too_many_arguments)]
pub fn adapter_task(sim: &Sim, exec: Id, task: Id, aid: Id, kind: u8, total: u32, chunk: u32, then: u8) {
    let (sched, destroyed) = {
        let st = sim.st.borrow();
        if st.tasks.contains_key(&task) {
            return;
        }
        let Some(s) = st.srcs.get(&exec) else { return };
        let K::Exec(e) = &s.k else { return };
        let Some(sc) = e.sched.clone() else { return };
        (sc, s.sh.dropped.get() > 0)
    };
    if destroyed {
        return;
    }
    let adapter = {
        let mut st = sim.st.borrow_mut();
        let Some(m) = st.adapters.get_mut(&aid) else { return };
        if m.state != AdState::Held || m.indeterminate {
            return;
        }
        // direction must make sense for the fd
        let reading = matches!(kind, 0 | 2 | 4);
        if (reading && m.fdkind == FdKind::PipeW) || (!reading && m.fdkind == FdKind::PipeR) || (kind == 6 && m.fdkind != FdKind::Sock) {
            return;
        }
        m.state = AdState::InTask(task);
        m.adapter.take()
    };
    let ctr = Rc::new(Cell::new(0));
    let fut = IoFut { task, aid, adapter, kind, total: total as u64, chunk: chunk as usize, moved: 0, then, awaited: false, stalled: 0, tried_other: false, proxy: None, _g: DropCtr(ctr.clone()) };
    crate::exec::register_task(sim, exec, task, ctr);
    sim.st.borrow_mut().io_tasks.insert(task, IoTaskM { adapter: aid, kind, waiting: false, woken: false, starved: 0, ready_at_wait: false, polls_at_wait: 0 });
    let Some(r) = guarded(sim, "schedule", || sched.schedule(fut)) else { return };
    if r.is_err() {
        sim.violate("exec.schedule_failed", vec![], format!("schedule() on live executor {} returned ExecutorDestroyed", exec));
    }
}

/// at the end of the wait: is the fd a waiting task sleeps on ready?
pub fn at_wait(st: &mut St) {
    let mut upd = Vec::new();
    for (tid, t) in st.io_tasks.iter() {
        let Some(a) = st.adapters.get(&t.adapter) else { continue };
        let rev = os::poll_revents(a.own.0.as_raw_fd());
        let reading = matches!(t.kind, 0 | 2 | 4);
        let ready = if reading { rev & (os::PIN | os::PHUP | os::PERR) != 0 } else { rev & (os::POUT | os::PHUP | os::PERR) != 0 };
        let polls = st.tasks.get(tid).map(|x| x.polls).unwrap_or(0);
        upd.push((*tid, t.waiting && ready && !a.indeterminate, polls));
    }
    for (tid, r, p) in upd {
        let t = st.io_tasks.get_mut(&tid).unwrap();
        t.ready_at_wait = r;
        t.polls_at_wait = p;
    }
}

/// liveness: a task waiting on a ready fd is polled again within two successful dispatches
/// (one to wake it, one for the executor to run it)
pub fn after_dispatch(sim: &Sim, ok: bool) {
    if !ok {
        return;
    }
    let mut st = sim.st.borrow_mut();
    let mut viol = None;
    let tids: Vec<Id> = st.io_tasks.keys().copied().collect();
    for tid in tids {
        let Some(tm) = st.tasks.get(&tid) else { continue };
        let polls = tm.polls;
        let exec_ok = st.srcs.get(&tm.exec).map(|s| s.inserted && s.enabled && !s.indeterminate && !s.excused).unwrap_or(false);
        let done = tm.done;
        let t = st.io_tasks.get_mut(&tid).unwrap();
        if done || !exec_ok {
            t.starved = 0;
            continue;
        }
        if polls > t.polls_at_wait || t.woken {
            t.starved = 0;
        } else if t.ready_at_wait && t.waiting {
            // the fd was ready when the batch was collected and the task was parked on it: its
            // waker must have been invoked by this dispatch
            viol = Some(format!("task {} sleeps on adapter {} whose fd was ready when the dispatch polled, but its waker was not invoked", tid, t.adapter));
            break;
        }
    }
    drop(st);
    if let Some(d) = viol {
        sim.violate("io.task_not_woken", vec![], d);
    }
}

/// O_NONBLOCK must be set on the fd of every live adapter
pub fn step_invariants(sim: &Sim) {
    let st = sim.st.borrow();
    for (id, a) in st.adapters.iter() {
        if alive(a.state) && !a.indeterminate && !os::is_nonblocking(a.own.0.as_raw_fd()) {
            let d = format!("adapter {} is alive but its fd is in blocking mode", id);
            drop(st);
            sim.violate("io.not_nonblocking", vec![], d);
            return;
        }
    }
}
