//! Operations of the later-phase source kinds (executor, stream, composite, lifecycle,
//! transient, adapters, signals).

use crate::program::Op;
use crate::sim::Sim;

pub fn exec_op2(sim: &Sim, op: &Op, _in_cb: bool) {
    match op {
        Op::InsertLifecycle { id, with_ping, synth, script, .. } => crate::life::insert_lifecycle(sim, *id, *with_ping, synth, script),
        _ => {}
    }
}
