//! Operations of the later-phase source kinds (executor, stream, composite, lifecycle,
//! transient, adapters, signals).

use crate::program::Op;
use crate::sim::Sim;

pub fn exec_op2(sim: &Sim, op: &Op, _in_cb: bool) {
    match op {
        Op::InsertLifecycle { id, with_ping, synth, script, .. } => crate::life::insert_lifecycle(sim, *id, *with_ping, synth, script),
        Op::InsertExecutor { id, script } => crate::exec::insert_executor(sim, *id, script),
        Op::Schedule { exec, task, pendings, script } => crate::exec::schedule(sim, *exec, *task, *pendings, script),
        Op::Wake(t) => crate::exec::wake(sim, *t),
        Op::InsertComposite { id, children, script } => crate::composite::insert_composite(sim, *id, children, script),
        Op::PingChild(..) | Op::DropChildPing(..) | Op::PeerWriteChild(..) => crate::composite::child_op(sim, op),
        Op::SigNew { id, sigs, script } => crate::sig::sig_new(sim, *id, sigs, script),
        Op::SigAdd(id, s) => crate::sig::sig_change(sim, *id, 0, s),
        Op::SigRemove(id, s) => crate::sig::sig_change(sim, *id, 1, s),
        Op::SigSet(id, s) => crate::sig::sig_change(sim, *id, 2, s),
        Op::Raise(s) => crate::sig::raise(sim, *s),
        Op::InsertTransient { id, child, from_default, script } => crate::transient::insert_transient(sim, *id, child, *from_default, script),
        Op::TrRemove(id) | Op::TrMap(id) | Op::TrReplace(id, _) => crate::transient::tr_op(sim, *id, op, _in_cb),
        Op::AdaptIo { id, fd, blocking, .. } => crate::adapter::adapt_io(sim, *id, *fd, *blocking),
        Op::AdapterIntoInner(id) => crate::adapter::release(sim, *id, true),
        Op::AdapterDrop(id) => crate::adapter::release(sim, *id, false),
        Op::AdapterTask { exec, task, adapter, kind, total, chunk, then } => crate::adapter::adapter_task(sim, *exec, *task, *adapter, *kind, *total, *chunk, *then),
        Op::AdapterPeerWrite(id, n) => crate::adapter::peer_write(sim, *id, *n),
        Op::AdapterPeerRead(id, n) => crate::adapter::peer_read(sim, *id, *n),
        Op::AdapterPeerClose(id) => crate::adapter::peer_close(sim, *id),
        Op::SendMany(id, n) => {
            for _ in 0..*n {
                crate::ops::exec_op(sim, &Op::Send(*id), _in_cb);
            }
            sim.probe("send_many");
        }
        Op::ScheduleMany { exec, base, n } => {
            for i in 0..*n {
                crate::exec::schedule(sim, *exec, base + i, 0, &[]);
            }
            sim.probe("schedule_many");
        }
        Op::InsertStream { id, script } => crate::exec::insert_stream(sim, *id, script),
        Op::StreamPush(id) => crate::exec::stream_push(sim, *id, false),
        Op::StreamEnd(id) => crate::exec::stream_push(sim, *id, true),
        _ => {}
    }
}
