//! Operations of the later-phase source kinds (executor, stream, composite, lifecycle,
//! transient, adapters, signals).

use crate::program::Op;
use crate::sim::Sim;

pub fn exec_op2(_sim: &Sim, _op: &Op, _in_cb: bool) {}
