//! Operations of the later-phase source kinds (executor, stream, composite, lifecycle,
//! transient, adapters, signals).

use crate::program::Op;
use crate::sim::Sim;

/// C01/C06: a long history of reuses of one slot; stale tokens younger than 65536 reuses
/// must stay dead.
fn slot_churn(sim: &Sim, n: u32) {
    use calloop::timer::{TimeoutAction, Timer};
    let Some(h) = sim.st.borrow().handle.clone() else { return };
    if sim.hk.borrow().in_dispatch {
        return;
    }
    let mut hist: std::collections::VecDeque<calloop::RegistrationToken> = std::collections::VecDeque::new();
    // the churn's own sources take generations the model does not record
    sim.st.borrow_mut().churned = true;
    let before = h.verif_stats().occupied_slots;
    for i in 0..n {
        let t = match h.insert_source(Timer::from_duration(std::time::Duration::from_secs(3600)), |_, _, _: &mut crate::sim::Tag| TimeoutAction::Drop) {
            Ok(t) => t,
            Err(_) => return,
        };
        for age in [1usize, 255, 256, 4095, 65535] {
            if hist.len() >= age {
                let old = hist[hist.len() - age];
                let r = h.enable(&old);
                if !matches!(r, Err(calloop::Error::InvalidToken)) {
                    sim.violate("token.stale_not_rejected", vec!["slot_churn".into(), format!("age={}", age)], format!("after {} reuses of one slot, enable() with the token issued {} reuses ago returned {:?}", i, age, r.map_err(|e| e.to_string())));
                    return;
                }
                h.remove(old);
                if h.verif_stats().occupied_slots != before + 1 {
                    sim.violate("token.stale_had_effect", vec!["slot_churn".into(), format!("age={}", age)], format!("remove() with the token issued {} reuses ago removed the current occupant of the slot", age));
                    return;
                }
            }
        }
        h.remove(t);
        hist.push_back(t);
        if hist.len() > 65535 {
            hist.pop_front();
        }
    }
    sim.probe("slot_churn");
    sim.rule_ok(&["C01", "C06"], 16);
}

pub fn exec_op2(sim: &Sim, op: &Op, _in_cb: bool) {
    match op {
        Op::InsertLifecycle { id, with_ping, synth, script, two, fail_step2, keep_rejected, sock, synth_on_sock, forgetful, slow, .. } => crate::life::insert_lifecycle(sim, *id, *with_ping, synth, script, *two && *with_ping, *fail_step2, *keep_rejected, *sock, *sock && *synth_on_sock, !*forgetful, *slow),
        Op::InsertExecutor { id, script } => crate::exec::insert_executor(sim, *id, script),
        Op::Schedule { exec, task, pendings, script } => crate::exec::schedule(sim, *exec, *task, *pendings, script),
        Op::Wake(t) => crate::exec::wake(sim, *t),
        Op::RemoveRange { base, n } => {
            for i in 0..*n {
                crate::ops::exec_op(sim, &Op::Remove(base + i), _in_cb);
                if sim.is_dead() {
                    return;
                }
            }
            sim.probe("remove_range");
        }
        Op::ManyIdles { base, n } => {
            for i in 0..*n {
                crate::ops::exec_op(sim, &Op::InsertIdle { id: base + i, ops: vec![] }, _in_cb);
            }
            sim.probe("many_idles");
        }
        Op::ManyPings { base, n, first_script } => {
            for i in 0..*n {
                crate::ops::exec_op(sim, &Op::InsertPing { id: base + i, script: if i == 0 { first_script.clone() } else { vec![] } }, _in_cb);
                crate::ops::exec_op(sim, &Op::Ping(base + i), _in_cb);
            }
            sim.probe("many_pings");
        }
        Op::ScheduleTimeout { exec, task, dl } => crate::exec::schedule_timeout(sim, *exec, *task, *dl),
        Op::SlotChurn(n) => slot_churn(sim, *n),
        Op::InsertComposite { id, children, script } => crate::composite::insert_composite(sim, *id, children, script),
        Op::PingChild(..) | Op::DropChildPing(..) | Op::PeerWriteChild(..) | Op::ArmChildTimer(..) => crate::composite::child_op(sim, op),
        Op::SigNew { id, sigs, script } => crate::sig::sig_new(sim, *id, sigs, script),
        Op::SigAdd(id, s) => crate::sig::sig_change(sim, *id, 0, s),
        Op::SigRemove(id, s) => crate::sig::sig_change(sim, *id, 1, s),
        Op::SigSet(id, s) => crate::sig::sig_change(sim, *id, 2, s),
        Op::Raise(s) => crate::sig::raise(sim, *s, false),
        Op::Kill(s) => crate::sig::raise(sim, *s, true),
        Op::SpawnChild => crate::sig::spawn_child(sim),
        Op::InsertTransient { id, child, from_default, script } => crate::transient::insert_transient(sim, *id, child, *from_default, script),
        Op::TrRemove(id) | Op::TrMap(id) | Op::TrReplace(id, _) => crate::transient::tr_op(sim, *id, op, _in_cb, false),
        Op::TrChildFail(id, w) => crate::transient::arm_child_failure(sim, *id, *w),
        Op::TrReplaceFailRetry(id, spec) => crate::transient::replace_fail_retry(sim, *id, spec),
        Op::TrAssign(id, _, lazy) => crate::transient::tr_op(sim, *id, op, _in_cb, *lazy),
        Op::TrRemoveLazy(id) => crate::transient::tr_op(sim, *id, &Op::TrRemove(*id), _in_cb, true),
        Op::TrReplaceLazy(id, c) => crate::transient::tr_op(sim, *id, &Op::TrReplace(*id, c.clone()), _in_cb, true),
        Op::AdaptIo { id, fd, blocking, flushy, .. } => crate::adapter::adapt_io(sim, *id, *fd, *blocking, *flushy),
        Op::AdapterIntoInner(id) => crate::adapter::release(sim, *id, true),
        Op::AdapterDrop(id) => crate::adapter::release(sim, *id, false),
        Op::AdapterTask { exec, task, adapter, kind, total, chunk, then } => crate::adapter::adapter_task(sim, *exec, *task, *adapter, *kind, *total, *chunk, *then),
        Op::AdapterPeerWrite(id, n) => crate::adapter::peer_write(sim, *id, *n),
        Op::AdapterPeerRead(id, n) => crate::adapter::peer_read(sim, *id, *n),
        Op::AdapterPeerClose(id) => crate::adapter::peer_close(sim, *id),
        Op::AdapterGiveTo(a, s, w) => crate::adapter::give_to(sim, *a, *s, *w),
        Op::AdapterPeerLastWords(id, n) => {
            crate::adapter::peer_write(sim, *id, *n);
            crate::adapter::peer_close(sim, *id);
        }
        Op::SendMany(id, n) => {
            for _ in 0..*n {
                crate::ops::exec_op(sim, &Op::Send(*id), _in_cb);
            }
            sim.probe("send_many");
        }
        Op::ScheduleMany { exec, base, n } => {
            for i in 0..*n {
                crate::exec::schedule(sim, *exec, base + i, 0, &[]);
            }
            sim.probe("schedule_many");
        }
        Op::InsertStream { id, script } => crate::exec::insert_stream(sim, *id, script),
        Op::StreamPush(id) => crate::exec::stream_push(sim, *id, false),
        Op::StreamPushMany(id, n, end) => {
            for _ in 0..(*n).min(5000) {
                crate::exec::stream_push(sim, *id, false);
            }
            if *end {
                crate::exec::stream_push(sim, *id, true);
            }
            sim.probe("stream_backlog");
        }
        Op::StreamEnd(id) => crate::exec::stream_push(sim, *id, true),
        _ => {}
    }
}
