//! The simulator object: virtual clock, hook implementation (calloop::verif::Sim), violation
//! log and trace. One `Sim` per run, installed in a thread local for the duration of the run.

use std::cell::{Cell, RefCell};
use std::collections::BTreeMap;
use std::io;
use std::rc::Rc;
use std::time::{Duration, Instant};

use calloop::verif::{BatchEvent, FaultSite, Site};
use serde::{Deserialize, Serialize};

use crate::model::St;
use crate::program::Fault;
use crate::rng::{Fp, Rng};

/// The `Data` handed to `dispatch`; callbacks check they get the one of their run.
pub struct Tag(pub u64);

#[derive(Serialize, Deserialize, Clone, Debug, PartialEq)]
pub struct Violation {
    pub rule: String,
    /// properties this rule witnesses
    pub props: Vec<String>,
    /// machine-computed facts about the failing history
    pub flags: Vec<String>,
    pub detail: String,
    /// index of the top-level step that was executing
    pub step: usize,
}

impl Violation {
    pub fn class(&self) -> String {
        let mut f = self.flags.clone();
        f.sort();
        format!("{}[{}]", self.rule, f.join(","))
    }
}

/// rule -> properties it witnesses
pub const RULES: &[(&str, &[&str])] = &[
    ("callback.after_remove", &["C01", "C06"]),
    ("callback.while_disabled", &["C01", "C07"]),
    ("callback.never_inserted", &["C01", "C15"]),
    ("callback.wrong_data", &["C01"]),
    ("dispatch.event_after_remove", &["C06", "C01"]),
    ("composite.event_for_wrong_child", &["C01"]),
    ("ping.callback_without_ping", &["C01", "C03"]),
    ("ping.two_callbacks_one_dispatch", &["C03"]),
    ("ping.not_removed_after_close", &["C03", "C06"]),
    ("ping.removed_without_close", &["C03", "C06"]),
    ("channel.wrong_message", &["C01", "C04"]),
    ("channel.closed_early", &["C04"]),
    ("channel.closed_twice", &["C04"]),
    ("channel.after_closed", &["C04"]),
    ("channel.not_removed_after_closed", &["C04", "C06"]),
    ("timer.early", &["C05", "C01"]),
    ("timer.wrong_event", &["C05", "C01"]),
    ("timer.fired_twice", &["C05", "C01"]),
    ("timer.fired_unarmed", &["C05", "C01", "C07"]),
    ("timer.order", &["C05"]),
    ("timer.residue", &["C05"]),
    ("timer.not_removed_after_drop", &["C05", "C06"]),
    ("generic.event_without_readiness", &["C01", "C02"]),
    ("generic.oneshot_fired_unarmed", &["C02", "C01"]),
    ("generic.ghost_event", &["C16", "C01"]),
    ("must.not_dispatched", &["C02"]),
    ("exec.schedule_after_destroy", &["C10"]),
    ("exec.schedule_failed", &["C10", "C08"]),
    ("exec.poll_after_complete", &["C10"]),
    ("exec.poll_outside_dispatch", &["C10"]),
    ("exec.result_wrong", &["C10", "C01"]),
    ("exec.lost_wake", &["C10", "C02"]),
    ("exec.timeout_early", &["C05", "C10"]),
    ("exec.timeout_late", &["C05", "C10"]),
    ("exec.result_not_delivered", &["C10"]),
    ("exec.future_dropped_twice", &["C10", "C06"]),
    ("exec.future_leaked", &["C10", "C06"]),
    ("io.not_nonblocking", &["C17"]),
    ("io.flags_not_restored", &["C17", "C15"]),
    ("io.bytes_corrupted", &["C17"]),
    ("transient.failed_replacement_retry", &["C15", "C18"]),
    ("dispatch.wrong_error_reported", &["C15"]),
    ("io.bytes_lost", &["C17"]),
    ("io.task_not_woken", &["C17", "C02"]),
    ("io.no_progress", &["C17"]),
    ("transient.event_from_wrong_child", &["C18", "C01"]),
    ("transient.double_register", &["C18"]),
    ("transient.double_unregister", &["C18"]),
    ("transient.dropped_registered", &["C18"]),
    ("transient.registration_mismatch", &["C18", "C16"]),
    ("transient.child_not_dropped", &["C18"]),
    ("transient.bad_post_action", &["C18"]),
    ("transient.map", &["C18"]),
    ("signal.mask_mismatch", &["C19"]),
    ("signal.normal_disposition", &["C19"]),
    ("signal.wrong_info", &["C19"]),
    ("signal.left_pending", &["C19", "C02"]),
    ("signal.unexpected_event", &["C19", "C01"]),
    ("stream.after_end", &["C10"]),
    ("stream.items_left", &["C10", "C02"]),
    ("stream.wrong_item", &["C10", "C01"]),
    ("stream.none_early", &["C10"]),
    ("stream.not_removed_after_end", &["C10", "C06"]),
    ("dispatch.unexpected_error", &["C01", "C02", "C15"]),
    ("dispatch.panic", &["C08", "C15"]),
    ("op.panic", &["C08", "C15"]),
    ("op.unexpected_result", &["C06", "C15"]),
    ("token.stale_not_rejected", &["C06"]),
    ("token.stale_had_effect", &["C06", "C01"]),
    ("release.not_dropped", &["C06"]),
    ("release.double_drop", &["C06"]),
    ("release.take_failed", &["C06"]),
    ("stats.occupied_slots", &["C06", "C15"]),
    ("stats.lifecycle_len", &["C14", "C15"]),
    ("stats.pending_action", &["C09"]),
    ("postaction.wrong_target", &["C09", "C07"]),
    ("postaction.count", &["C09"]),
    ("postaction.combine", &["C09"]),
    ("idle.ran_cancelled", &["C13"]),
    ("idle.ran_twice", &["C13"]),
    ("idle.order", &["C13"]),
    ("idle.before_source_callback", &["C13"]),
    ("idle.same_dispatch_as_parent", &["C13"]),
    ("idle.not_run", &["C13"]),
    ("idle.in_failed_dispatch", &["C13", "C15"]),
    ("idle.outside_dispatch", &["C13"]),
    ("idle.leaked", &["C13", "C06"]),
    ("wait.count", &["C12", "C14"]),
    ("run.iterations", &["C11"]),
    ("blockon.result", &["C11"]),
    ("blockon.lost_wake", &["C11"]),
    ("wait.requested_timeout", &["C12"]),
    ("wait.clock_moved", &["C12"]),
    ("wait.limit_timer_not_fired", &["C12", "C05"]),
    ("table.mismatch", &["C16"]),
    ("table.reinsert_failed", &["C16"]),
    ("insert.error_source_mismatch", &["C15"]),
    ("insert.retry_failed", &["C15"]),
    ("lifecycle.before_sleep_count", &["C14"]),
    ("lifecycle.before_handle_events_count", &["C14"]),
    ("lifecycle.order", &["C14"]),
    ("lifecycle.not_entitled", &["C14", "C07", "C06"]),
    ("lifecycle.synthetic_not_delivered", &["C14"]),
    ("lifecycle.iterator", &["C14"]),
    ("lifecycle.synthetic_timeout", &["C14", "C12"]),
    ("wait.livelock", &["C11", "C12", "C02"]),
    ("wait.wakeup_ignored", &["C11", "C12"]),
];

pub fn props_of(rule: &str) -> Vec<String> {
    for (r, p) in RULES {
        if *r == rule {
            return p.iter().map(|s| s.to_string()).collect();
        }
    }
    panic!("unknown rule {}", rule);
}

pub const N_SITES: usize = 27;

pub fn site_index(s: Site) -> usize {
    s as usize
}

pub const SITE_NAMES: [&str; N_SITES] = [
    "PingWriteBefore",
    "PingWriteAfter",
    "PingDrain",
    "PingFlagDrop",
    "NotifyBefore",
    "NotifyAfter",
    "ChanEnqueued",
    "ChanSyncBlocking",
    "ChanTryRecv",
    "ChanReping",
    "ExecEnqueue",
    "ExecEnqueued",
    "ExecFlagClear",
    "ExecDequeue",
    "ExecRewake",
    "ExecDrop",
    "ExecDropDrained",
    "RunCheckStop",
    "RunIterDone",
    "Stop",
    "BlockOnWake",
    "BlockOnWakeStored",
    "BlockOnSwap",
    "ArcClone",
    "ArcDrop",
    "ArcRead",
    "_",
];

/// What one wait looked like (for the C12 oracle).
#[derive(Clone, Debug, Default)]
pub struct WaitRec {
    pub requested: Option<Option<u64>>,
    pub t_enter: u64,
    pub t_leave: u64,
    pub notified: bool,
    pub events: usize,
    pub would_block_forever: bool,
    pub slept: bool,
    pub env_interrupted: bool,
}

#[derive(Default)]
pub struct Hk {
    pub epfd: i32,
    pub notifier_fd: i32,
    pub faults: Vec<Fault>,
    pub seam_calls: [u32; 4],
    pub faults_fired: Vec<(u8, i32)>,
    pub points: [u64; N_SITES],
    pub waits: Vec<WaitRec>,
    pub batch: Vec<BatchEvent>,
    pub batch_n_fd: usize,
    pub perm_seed: u64,
    pub dispatch_no: u64,
    pub in_dispatch: bool,
    /// an error out of this dispatch is explained (scripted / injected / natural)
    pub expected_err: bool,
    pub violations: Vec<Violation>,
    pub trace: Vec<String>,
    pub record: bool,
    pub step: usize,
    /// per-property fingerprints of rule evaluations
    pub fp: BTreeMap<&'static str, (Fp, u32)>,
    pub probes: BTreeMap<&'static str, u64>,
    pub fault_window: bool,
    pub cb_err_returned: bool,
    /// depth of simulator-issued calloop API calls (a fault outside of them, during a
    /// dispatch, hits the post action of the event being processed)
    pub api_depth: u32,
    pub fault_in_event: bool,
    pub pe_calls: u32,
    /// waits of the run so far (fault site 5: the n-th wait fails with a poller error)
    pub wait_calls: u32,
    pub c08_cells: BTreeMap<String, u64>,
    /// fds whose registration call was made to fail (attributed to their owner afterwards)
    pub faulted_fds: Vec<i32>,
    /// the first failure the dispatch in progress met: (it was an error returned by a
    /// source's event processing, its text); faults fired when the dispatch began
    pub first_failure: Option<(bool, String)>,
    pub faults_at_dispatch_start: usize,
}

pub struct Sim {
    pub clock: Cell<u64>,
    pub anchor: Instant,
    pub hk: RefCell<Hk>,
    pub st: RefCell<St>,
    pub dead: Cell<bool>,
    pub tag: u64,
}

thread_local! {
    static CUR: RefCell<Option<Rc<Sim>>> = const { RefCell::new(None) };
    static ANCHOR: Instant = Instant::now();
}

pub fn cur() -> Rc<Sim> {
    CUR.with(|c| c.borrow().clone()).expect("no simulator installed")
}

pub fn try_cur() -> Option<Rc<Sim>> {
    CUR.try_with(|c| c.borrow().clone()).ok().flatten()
}

pub fn install(sim: Option<Rc<Sim>>) {
    match &sim {
        Some(s) => {
            calloop::verif::install(Some(s.clone() as Rc<dyn calloop::verif::Sim>));
        }
        None => {
            calloop::verif::install(None);
        }
    }
    CUR.with(|c| *c.borrow_mut() = sim);
}

impl Sim {
    pub fn new(tag: u64) -> Rc<Sim> {
        Rc::new(Sim {
            clock: Cell::new(0),
            anchor: ANCHOR.with(|a| *a),
            hk: RefCell::new(Hk::default()),
            st: RefCell::new(St::default()),
            dead: Cell::new(false),
            tag,
        })
    }

    pub fn now_ns(&self) -> u64 {
        self.clock.get()
    }

    pub fn instant_at(&self, ns: u64) -> Instant {
        self.anchor + Duration::from_nanos(ns)
    }

    pub fn ns_of(&self, i: Instant) -> u64 {
        i.saturating_duration_since(self.anchor).as_nanos() as u64
    }

    pub fn violate(&self, rule: &'static str, flags: Vec<String>, detail: String) {
        self.violate_props(rule, &[], flags, detail)
    }

    /// like `violate`, with additional properties the violation witnesses in this context
    pub fn violate_props(&self, rule: &'static str, extra: &[&str], flags: Vec<String>, detail: String) {
        if self.dead.get() {
            return;
        }
        let mut hk = self.hk.borrow_mut();
        let step = hk.step;
        if hk.record {
            hk.trace.push(format!("!! VIOLATION {} {:?} {}", rule, flags, detail));
        }
        let mut props = props_of(rule);
        for e in extra {
            if !props.iter().any(|p| p == e) {
                props.push(e.to_string());
            }
        }
        hk.violations.push(Violation { rule: rule.to_string(), props, flags, detail, step });
        self.dead.set(true);
    }

    /// A rule of `props` was evaluated (and held) in abstract context `ctx`.
    pub fn rule_ok(&self, props: &[&'static str], ctx: u64) {
        let mut hk = self.hk.borrow_mut();
        // the abstract context of an evaluation: which rule/context, in which dispatch of the
        // run, at which step
        let c = ctx ^ (hk.dispatch_no << 20) ^ ((hk.step as u64) << 40);
        for p in props {
            let e = hk.fp.entry(p).or_insert((Fp::default(), 0));
            e.0.add(c);
            e.1 += 1;
        }
    }

    pub fn probe(&self, name: &'static str) {
        *self.hk.borrow_mut().probes.entry(name).or_insert(0) += 1;
    }

    pub fn trace(&self, f: impl FnOnce() -> String) {
        let mut hk = self.hk.borrow_mut();
        if hk.record {
            let s = f();
            hk.trace.push(s);
        }
    }

    pub fn is_dead(&self) -> bool {
        self.dead.get()
    }
}

impl calloop::verif::Sim for Sim {
    fn now(&self) -> Option<Instant> {
        Some(self.instant_at(self.clock.get()))
    }

    fn wait(
        &self,
        poller: &polling::Poller,
        events: &mut polling::Events,
        timeout: Option<Duration>,
    ) -> Option<io::Result<usize>> {
        Some(crate::engine::wait_hook(self, poller, events, timeout))
    }

    fn batch(&self, events: &mut Vec<BatchEvent>, n_fd: usize) {
        // canonical order first (epoll promises none), then the seeded permutation
        events[..n_fd].sort_by_key(|e| e.key);
        let (perm_seed, dispatch_no) = {
            let hk = self.hk.borrow();
            (hk.perm_seed, hk.dispatch_no)
        };
        if perm_seed != 0 && n_fd > 1 {
            let mut rng = Rng::new(perm_seed ^ dispatch_no.wrapping_mul(0x9E37_79B9));
            rng.shuffle(&mut events[..n_fd]);
        }
        {
            let mut hk = self.hk.borrow_mut();
            hk.batch = events.clone();
            hk.batch_n_fd = n_fd;
        }
        crate::engine::batch_hook(self, events, n_fd);
    }

    fn fault(&self, site: FaultSite, fd: i32) -> io::Result<()> {
        let mut hk = self.hk.borrow_mut();
        let s = match site {
            FaultSite::Register => 1,
            FaultSite::Reregister => 2,
            FaultSite::Unregister => 3,
        };
        let n_any = hk.seam_calls[0];
        let n_site = hk.seam_calls[s];
        hk.seam_calls[0] += 1;
        hk.seam_calls[s] += 1;
        let mut hit = None;
        for f in &hk.faults {
            if (f.site == 0 && f.nth == n_any) || (f.site as usize == s && f.nth == n_site) {
                hit = Some(f.errno);
                break;
            }
        }
        if let Some(errno) = hit {
            hk.faults_fired.push((s as u8, errno));
            hk.faulted_fds.push(fd);
            hk.fault_window = true;
            if hk.in_dispatch {
                hk.expected_err = true;
                if hk.api_depth == 0 {
                    hk.fault_in_event = true;
                }
            }
            if hk.record {
                hk.trace.push(format!("  fault injected at seam {} errno {}", s, errno));
            }
            return Err(io::Error::from_raw_os_error(errno));
        }
        Ok(())
    }

    fn point(&self, site: Site) {
        self.hk.borrow_mut().points[site_index(site)] += 1;
    }

    fn event_begin(&self, key: usize) {
        crate::engine::event_begin(self, key);
    }

    fn event_end(&self, key: usize) {
        crate::engine::event_end(self, key);
    }
}
