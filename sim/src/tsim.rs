//! Thread-schedule simulator (shuttle). calloop is built with `calloop_verif_shuttle`: its
//! mpsc / Mutex / AtomicBool are shuttle's models, every "thread" is a coroutine on this one OS
//! thread, a seeded scheduler decides every interleaving, and the named points around each
//! eventfd write / drain / notify are extra scheduling points. Kernel objects stay real.

use std::cell::RefCell;
use std::collections::{BTreeMap, BTreeSet};
use std::io;
use std::rc::Rc;
use std::sync::{Arc, Mutex};
use std::time::{Duration, Instant};

use calloop::verif::{BatchEvent, FaultSite, Site};
use serde::{Deserialize, Serialize};
use shuttle::scheduler::{Schedule, Scheduler, Task, TaskId};

use crate::os;
use crate::sim::{Violation, SITE_NAMES};

/// consecutive empty polls of a blocking wait after which the loop is declared stuck
pub const PATIENCE: u32 = 3000;

#[derive(Clone, Debug, PartialEq)]
pub enum Ev {
    Point { th: u32, site: Site },
    OpBegin { th: u32, op: &'static str, arg: u64 },
    OpEnd { th: u32, op: &'static str, arg: u64, ok: bool },
    Callback { src: &'static str, payload: u64 },
    Poll { task: u64, th: u32 },
    Drop { what: &'static str, id: u64, th: u32 },
    WaitEnter { blocking: bool },
    WaitLeave { events: usize, notified: bool },
    Stuck,
    Note(&'static str, u64),
}

#[derive(Default)]
pub struct TS {
    pub seq: u64,
    pub events: Vec<(u64, Ev)>,
    /// shuttle thread id (debug string) -> logical thread number (0 = loop thread)
    pub names: BTreeMap<String, u32>,
    pub stuck: bool,
    pub notifier_fd: i32,
    pub in_flag_drop: BTreeSet<u32>,
    pub violation: Option<Violation>,
    pub waits: u64,
    pub empty_polls: u32,
    pub batch_events: usize,
    /// fault: a stalled thread - the first thread other than the loop that reaches this site
    /// stops there until the loop has gone through this many more waits (or patience runs out)
    pub stall: Option<(Site, u64)>,
    pub stalls_fired: u32,
}

thread_local! {
    pub static T: RefCell<TS> = RefCell::new(TS::default());
    static ANCHOR: Instant = Instant::now();
}

pub fn me() -> u32 {
    let id = format!("{:?}", shuttle::thread::current().id());
    T.with(|t| t.borrow().names.get(&id).copied().unwrap_or(99))
}

pub fn register_thread(logical: u32) {
    let id = format!("{:?}", shuttle::thread::current().id());
    T.with(|t| t.borrow_mut().names.insert(id, logical));
}

pub fn log(ev: Ev) -> u64 {
    T.with(|t| {
        let mut t = t.borrow_mut();
        t.seq += 1;
        let s = t.seq;
        t.events.push((s, ev));
        s
    })
}

pub fn violate(rule: &str, props: &[&str], flags: Vec<String>, detail: String) {
    T.with(|t| {
        let mut t = t.borrow_mut();
        if t.violation.is_none() {
            t.violation = Some(Violation { rule: rule.to_string(), props: props.iter().map(|s| s.to_string()).collect(), flags, detail, step: 0 });
        }
    });
}

pub fn is_stuck() -> bool {
    T.with(|t| t.borrow().stuck)
}

/// a scheduling point between two operations of a scripted thread
pub fn sp() {
    shuttle::thread::sleep(Duration::ZERO);
}

pub struct Hooks;

impl calloop::verif::Sim for Hooks {
    fn now(&self) -> Option<Instant> {
        Some(ANCHOR.with(|a| *a))
    }

    fn wait(&self, poller: &polling::Poller, events: &mut polling::Events, timeout: Option<Duration>) -> Option<io::Result<usize>> {
        let blocking = timeout != Some(Duration::ZERO);
        log(Ev::WaitEnter { blocking });
        let nfd = T.with(|t| {
            let mut t = t.borrow_mut();
            t.waits += 1;
            t.notifier_fd
        });
        let mut empty = if is_stuck() { PATIENCE } else { 0 };
        loop {
            let notified = nfd >= 0 && os::eventfd_count(nfd) > 0;
            events.clear();
            if let Err(e) = poller.wait(events, Some(Duration::ZERO)) {
                return Some(Err(e));
            }
            let n = events.iter().count();
            if n > 0 || notified || !blocking {
                log(Ev::WaitLeave { events: n, notified });
                return Some(Ok(n));
            }
            // a blocking wait with nothing ready: let the other threads run. Bounded patience
            // replaces blocking; every round consults the real kernel objects again.
            empty += 1;
            T.with(|t| t.borrow_mut().empty_polls += 1);
            if empty > PATIENCE {
                T.with(|t| t.borrow_mut().stuck = true);
                log(Ev::Stuck);
                return Some(Ok(0));
            }
            shuttle::thread::yield_now();
        }
    }

    fn batch(&self, events: &mut Vec<BatchEvent>, n_fd: usize) {
        events[..n_fd].sort_by_key(|e| e.key);
        T.with(|t| t.borrow_mut().batch_events += events.len());
    }

    fn fault(&self, _site: FaultSite, _fd: i32) -> io::Result<()> {
        Ok(())
    }

    fn point(&self, site: Site) {
        let th = me();
        if site == Site::PingFlagDrop {
            T.with(|t| t.borrow_mut().in_flag_drop.insert(th));
        }
        log(Ev::Point { th, site });
        // a scheduling point that does not deprioritise the thread under PCT
        shuttle::thread::sleep(Duration::ZERO);
        // fault injection: this thread is slow exactly here (descheduled, page fault, ...)
        if th != 0 {
            let stall = T.with(|t| {
                let mut t = t.borrow_mut();
                match t.stall {
                    Some((s, n)) if s == site => {
                        t.stall = None;
                        t.stalls_fired += 1;
                        Some(t.waits + n)
                    }
                    _ => None,
                }
            });
            if let Some(until) = stall {
                // (much less patient than the loop's own wait, which would otherwise give up and
                // call the execution stuck while this thread is merely slow)
                for _ in 0..PATIENCE / 6 {
                    if T.with(|t| t.borrow().waits >= until) || is_stuck() {
                        break;
                    }
                    shuttle::thread::yield_now();
                }
            }
        }
        if site == Site::PingWriteAfter {
            T.with(|t| t.borrow_mut().in_flag_drop.remove(&th));
        }
    }
}

// ------------------------------------------------------------------------------------------
// record / replay scheduler
// ------------------------------------------------------------------------------------------

#[derive(Serialize, Deserialize, Clone, Copy, Debug, PartialEq, Eq)]
pub enum Decision {
    /// run this task next
    T(u32),
    /// this random value was handed to the program
    R(u64),
}

#[derive(Default)]
pub struct Shared {
    pub current: Vec<Decision>,
    pub stop: bool,
    pub executions: u64,
    pub replay_failed: bool,
}

pub struct Recording<S: Scheduler> {
    pub inner: S,
    pub shared: Arc<Mutex<Shared>>,
    pub max_executions: u64,
}

impl<S: Scheduler> Scheduler for Recording<S> {
    fn new_execution(&mut self) -> Option<Schedule> {
        let mut sh = self.shared.lock().unwrap();
        if sh.stop || sh.executions >= self.max_executions {
            drop(sh);
            // let the wrapped scheduler run out so that it does not report a "failing seed"
            let mut guard = 0;
            while self.inner.new_execution().is_some() && guard < 100_000 {
                guard += 1;
            }
            return None;
        }
        sh.executions += 1;
        sh.current.clear();
        drop(sh);
        self.inner.new_execution()
    }

    fn next_task(&mut self, runnable: &[&Task], current: Option<TaskId>, is_yielding: bool) -> Option<TaskId> {
        let t = self.inner.next_task(runnable, current, is_yielding)?;
        let t = fair(t, runnable, current, is_yielding);
        self.shared.lock().unwrap().current.push(Decision::T(usize::from(t) as u32));
        Some(t)
    }

    fn next_u64(&mut self) -> u64 {
        let v = self.inner.next_u64();
        self.shared.lock().unwrap().current.push(Decision::R(v));
        v
    }
}

/// Fairness: a task that yields (the loop thread polling, a thread waiting for a waker) hands
/// over to another runnable task if there is one. Without this a schedule could starve every
/// other thread and make the loop look stuck.
pub fn fair(choice: TaskId, runnable: &[&Task], current: Option<TaskId>, is_yielding: bool) -> TaskId {
    if is_yielding && Some(choice) == current && runnable.len() > 1 {
        let cur = usize::from(choice);
        let mut ids: Vec<usize> = runnable.iter().map(|t| usize::from(t.id())).collect();
        ids.sort_unstable();
        let next = ids.iter().copied().find(|i| *i > cur).unwrap_or(ids[0]);
        if next != cur {
            return TaskId::from(next);
        }
        if let Some(o) = ids.iter().copied().find(|i| *i != cur) {
            return TaskId::from(o);
        }
    }
    choice
}

/// Replays a decision list. Tolerant mode (used while minimising): a recorded task that is
/// not runnable is replaced by the current task if runnable, else the lowest runnable id, and
/// once the list is exhausted the same default rule applies. Strict mode: any mismatch marks
/// the replay as failed.
pub struct Replaying {
    pub decisions: Vec<Decision>,
    pub pos: usize,
    pub strict: bool,
    pub shared: Arc<Mutex<Shared>>,
    pub started: bool,
}

impl Replaying {
    fn default_choice(runnable: &[&Task], current: Option<TaskId>) -> TaskId {
        if let Some(c) = current {
            if runnable.iter().any(|t| t.id() == c) {
                return c;
            }
        }
        runnable.iter().map(|t| t.id()).min().unwrap()
    }
}

impl Scheduler for Replaying {
    fn new_execution(&mut self) -> Option<Schedule> {
        if self.started {
            return None;
        }
        self.started = true;
        self.pos = 0;
        let mut sh = self.shared.lock().unwrap();
        sh.executions += 1;
        sh.current.clear();
        Some(Schedule::new(0))
    }

    fn next_task(&mut self, runnable: &[&Task], current: Option<TaskId>, is_yielding: bool) -> Option<TaskId> {
        // skip to the next task decision
        while self.pos < self.decisions.len() && matches!(self.decisions[self.pos], Decision::R(_)) {
            self.pos += 1;
        }
        let choice = if self.pos < self.decisions.len() {
            let Decision::T(want) = self.decisions[self.pos] else { unreachable!() };
            self.pos += 1;
            match runnable.iter().find(|t| usize::from(t.id()) as u32 == want) {
                Some(t) => t.id(),
                None => {
                    if self.strict {
                        self.shared.lock().unwrap().replay_failed = true;
                    }
                    Self::default_choice(runnable, current)
                }
            }
        } else {
            if self.strict {
                // running past the recording is fine only while draining the tail
            }
            Self::default_choice(runnable, current)
        };
        let fair_choice = fair(choice, runnable, current, is_yielding);
        if fair_choice != choice && self.strict {
            self.shared.lock().unwrap().replay_failed = true;
        }
        let choice = fair_choice;
        self.shared.lock().unwrap().current.push(Decision::T(usize::from(choice) as u32));
        Some(choice)
    }

    fn next_u64(&mut self) -> u64 {
        let v = match self.decisions.get(self.pos) {
            Some(Decision::R(x)) => {
                self.pos += 1;
                *x
            }
            _ => {
                if self.strict {
                    self.shared.lock().unwrap().replay_failed = true;
                }
                0
            }
        };
        self.shared.lock().unwrap().current.push(Decision::R(v));
        v
    }
}

// ------------------------------------------------------------------------------------------
// scenario plumbing
// ------------------------------------------------------------------------------------------

#[derive(Serialize, Deserialize, Clone, Debug, PartialEq, Default)]
pub struct Params {
    pub scenario: String,
    pub threads: u32,
    pub ops: u32,
    pub bound: Option<u32>,
    pub variant: u32,
    pub extra: u32,
}

pub struct ExecOutcome {
    pub violation: Option<Violation>,
    pub trace_fp: u64,
    pub pair_orders: Vec<(&'static str, bool)>,
    pub events: Vec<String>,
    pub steps: usize,
}

/// Reset the per-execution state and install the hooks (called at the start of every
/// execution, on the loop thread).
pub fn begin_execution() {
    T.with(|t| *t.borrow_mut() = TS::default());
    T.with(|t| t.borrow_mut().notifier_fd = -1);
    calloop::verif::install(Some(Rc::new(Hooks)));
    register_thread(0);
}

/// Arm the stalled-thread fault for this execution (one scenario instance in three).
pub fn set_stall(extra: u32) {
    let mut r = crate::rng::Rng::new(extra as u64 ^ 0x57A11);
    if r.below(3) != 0 {
        return;
    }
    let site = *r.pick(&[
        Site::ChanSyncBlocking,
        Site::ChanEnqueued,
        Site::PingWriteBefore,
        Site::PingWriteAfter,
        Site::PingFlagDrop,
        Site::ExecEnqueue,
        Site::ExecEnqueued,
        Site::NotifyBefore,
        Site::NotifyAfter,
        Site::BlockOnWake,
        Site::BlockOnWakeStored,
        Site::ArcDrop,
    ]);
    let waits = *r.pick(&[2u64, 5, 20, 40]);
    T.with(|t| t.borrow_mut().stall = Some((site, waits)));
}

pub fn set_notifier(epfd: i32) {
    let n = os::find_notifier(epfd).unwrap_or(-1);
    T.with(|t| t.borrow_mut().notifier_fd = n);
}

pub fn end_execution() {
    calloop::verif::install(None);
}

/// Fingerprint of the (thread, site/op) trace of the finished execution, plus the observed
/// order of every critical pair of sites.
pub fn summarize() -> (u64, Vec<(&'static str, bool)>, Vec<String>, usize) {
    T.with(|t| {
        let t = t.borrow();
        let mut fp = crate::rng::Fp::default();
        let mut first: BTreeMap<&'static str, u64> = BTreeMap::new();
        let mut lines = Vec::new();
        for (s, e) in &t.events {
            match e {
                Ev::Point { th, site } => {
                    fp.add(((*th as u64) << 8) | crate::sim::site_index(*site) as u64);
                    first.entry(SITE_NAMES[crate::sim::site_index(*site)]).or_insert(*s);
                }
                Ev::OpBegin { th, op, .. } => {
                    fp.add_str(op);
                    fp.add(*th as u64);
                    first.entry(op).or_insert(*s);
                }
                Ev::Callback { src, payload } => {
                    fp.add_str(src);
                    fp.add(*payload);
                }
                Ev::WaitEnter { .. } => {
                    fp.add(7777);
                    first.entry("WaitEnter").or_insert(*s);
                }
                _ => {}
            }
            lines.push(format!("{:4} {:?}", s, e));
        }
        let pairs: [(&'static str, &'static str, &'static str); 8] = [
            ("PingWriteAfter<PingDrain", "PingWriteAfter", "PingDrain"),
            ("ExecEnqueued<ExecFlagClear", "ExecEnqueued", "ExecFlagClear"),
            ("ExecEnqueue<ExecDrop", "ExecEnqueue", "ExecDrop"),
            ("Stop<RunCheckStop", "Stop", "RunCheckStop"),
            ("NotifyAfter<WaitEnter", "NotifyAfter", "WaitEnter"),
            ("ChanTryRecv<PingWriteBefore", "ChanTryRecv", "PingWriteBefore"),
            ("BlockOnWakeStored<BlockOnSwap", "BlockOnWakeStored", "BlockOnSwap"),
            ("PingFlagDrop<PingDrain", "PingFlagDrop", "PingDrain"),
        ];
        let mut orders = Vec::new();
        for (name, a, b) in pairs {
            if let (Some(x), Some(y)) = (first.get(a), first.get(b)) {
                orders.push((name, x < y));
            }
        }
        (fp.0, orders, lines, t.events.len())
    })
}
