//! C16: the kernel's epoll interest list (read from /proc/self/fdinfo/<epfd>) against the
//! table the model expects.

use std::os::fd::AsRawFd;

use crate::model::*;
use crate::os;
use crate::sim::Sim;

pub const EPOLLIN: u32 = 0x1;
pub const EPOLLPRI: u32 = 0x2;
pub const EPOLLOUT: u32 = 0x4;
pub const EPOLLERR: u32 = 0x8;
pub const EPOLLHUP: u32 = 0x10;
pub const EPOLLONESHOT: u32 = 1 << 30;
pub const EPOLLET: u32 = 1 << 31;

pub fn mask_of(interest: u8, mode: u8, oneshot_armed: bool) -> u32 {
    let mut m = 0;
    if interest & 1 != 0 {
        m |= EPOLLIN | EPOLLPRI | EPOLLERR | EPOLLHUP;
    }
    if interest & 2 != 0 {
        m |= EPOLLOUT | EPOLLERR | EPOLLHUP;
    }
    // the kernel always adds ERR and HUP to the requested set
    m |= EPOLLERR | EPOLLHUP;
    match mode {
        1 => m |= EPOLLET,
        2 => {
            if !oneshot_armed {
                // a fired one-shot keeps only its private bits
                m = 0;
            }
            m |= EPOLLONESHOT;
        }
        _ => {}
    }
    m
}

/// (data, events, fd if known)
pub fn expected_table(st: &St) -> Vec<(u64, u32, Option<i32>)> {
    let mut out = Vec::new();
    for s in st.srcs.values() {
        if !(s.inserted && s.enabled) || s.indeterminate {
            continue;
        }
        let Some(k) = s.reg_key else { continue };
        match &s.k {
            K::Ping(_) | K::Channel(_) | K::Exec(_) | K::Stream(_) | K::Sig(_) => out.push((k as u64, mask_of(1, 0, true), None)),
            K::Life(l) => {
                if l.has_ping {
                    out.push((k as u64 + 1, mask_of(1, 0, true), None));
                }
                if l.two {
                    out.push((k as u64 + 2, mask_of(1, 0, true), None));
                }
                if l.sock_key.get() != 0 {
                    out.push((l.sock_key.get() as u64, mask_of(1, 0, true), None));
                }
            }
            K::Generic(g) => out.push((k as u64, mask_of(g.reg_interest, g.reg_mode, g.oneshot_armed), Some(g.own.0.as_raw_fd()))),
            K::Trans(t) => crate::transient::expected_entries(s, t, &mut out),
            _ => {}
        }
    }
    out.extend(st.extra_table.iter().cloned());
    out.sort();
    out
}

pub fn check_table(sim: &Sim) {
    let epfd = sim.hk.borrow().epfd;
    let st = sim.st.borrow();
    if !st.loop_alive || st.srcs.values().any(|s| s.indeterminate) || st.adapters_indeterminate > 0 {
        return;
    }
    // live adapters: presence is checked by fd (their interest mask changes with every await)
    let live_ad: Vec<u64> = st.adapters.values().filter(|a| crate::adapter::alive(a.state)).filter_map(|a| a.key).collect();
    // composite sources: several sub-tokens whose allocation the model does not predict
    let comp_keys: Vec<u64> = st.srcs.values().filter(|s| matches!(s.k, K::Comp(_))).filter_map(|s| s.reg_key.map(|k| k as u64)).collect();
    let actual: Vec<os::EpollEntry> = os::epoll_table(epfd).into_iter().filter(|e| e.data != u64::MAX && !live_ad.contains(&e.data) && !comp_keys.contains(&(e.data & !0xFFFF))).collect();
    let expected = expected_table(&st);
    drop(st);
    let mut a: Vec<(u64, u32)> = actual.iter().map(|e| (e.data, e.events)).collect();
    a.sort();
    let e: Vec<(u64, u32)> = expected.iter().map(|x| (x.0, x.1)).collect();
    if a != e {
        let stale: Vec<String> = a.iter().filter(|x| !e.iter().any(|y| y.0 == x.0)).map(|x| format!("{:#x}", x.0)).collect();
        let missing: Vec<String> = e.iter().filter(|x| !a.iter().any(|y| y.0 == x.0)).map(|x| format!("{:#x}", x.0)).collect();
        let mut flags = vec![];
        if !stale.is_empty() {
            flags.push("stale_entry".to_string());
        }
        if !missing.is_empty() {
            flags.push("missing_entry".to_string());
        }
        if stale.is_empty() && missing.is_empty() {
            flags.push("wrong_mask".to_string());
        }
        sim.violate(
            "table.mismatch",
            flags,
            format!("kernel epoll table (data, events) = {:x?}; the model expects {:x?}", a, e),
        );
        return;
    }
    // fds, where known
    for x in &expected {
        if let Some(fd) = x.2 {
            if !actual.iter().any(|e| e.data == x.0 && e.tfd == fd) {
                sim.violate("table.mismatch", vec!["wrong_fd".into()], format!("key {:#x} is registered for another fd than its source's", x.0));
                return;
            }
        }
    }
    sim.probe("table_checked");
    sim.rule_ok(&["C16"], e.len() as u64);
}
