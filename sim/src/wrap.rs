//! `Wrap<S>`: a transparent EventSource wrapper around every real calloop source the
//! simulator inserts. It forwards everything, counts register / reregister / unregister /
//! process_events / drop, reports the post action to the model, and can fail any of them on
//! schedule (the "failing user code" fault kind).

use std::cell::{Cell, RefCell};
use std::rc::Rc;

use calloop::{EventSource, Poll, PostAction, Readiness, Token, TokenFactory};

use crate::program::Id;

#[derive(Clone, Copy, Debug, PartialEq, Eq)]
pub enum LastRet {
    Ok(PostAction),
    Err,
}

#[derive(Debug, Default)]
pub struct WrapShared {
    pub id: Id,
    pub reg: Cell<u32>,
    pub rereg: Cell<u32>,
    pub unreg: Cell<u32>,
    pub pe: Cell<u32>,
    pub before_sleep: Cell<u32>,
    pub before_handle: Cell<u32>,
    pub dropped: Cell<u32>,
    /// (what, countdown): what 1 = register, 2 = reregister, 3 = unregister, 4 = process_events
    pub fail: RefCell<Vec<(u8, u32)>>,
    pub last_ret: Cell<Option<LastRet>>,
    /// registered according to the calls seen (register/unregister alternate)
    pub registered: Cell<bool>,
    /// fd sources: the callback asked the holder to unwrap its Generic after this event
    pub unwrap_now: Cell<bool>,
    pub unwrapped: Cell<bool>,
    /// composite sources: what the socket child whose callback just ran returns
    pub child_ret: Cell<Option<PostAction>>,
    /// composite sources: arm the parked timer child (index, ns) at the next reregister()
    pub arm_child: Cell<Option<(usize, u64)>>,
    /// things (Async adapters) this source owns and drops from inside its next unregister (0) /
    /// reregister (1) / register (2) call: (when, adapter id, the adapter)
    pub victims: RefCell<Vec<(u8, Id, Box<dyn std::any::Any>)>>,
}

impl WrapShared {
    pub fn new(id: Id) -> Rc<WrapShared> {
        Rc::new(WrapShared { id, ..Default::default() })
    }

    /// Drop what the source was given for this call; the poller is borrowed by calloop here.
    fn drop_victims(&self, when: u8, how: &'static str) {
        let mut gone = Vec::new();
        {
            let mut v = self.victims.borrow_mut();
            let mut i = 0;
            while i < v.len() {
                if v[i].0 == when || when == 9 {
                    gone.push(v.remove(i));
                } else {
                    i += 1;
                }
            }
        }
        for (_, id, b) in gone {
            drop(b);
            crate::adapter::dropped_inside(id, how);
        }
    }

    fn should_fail(&self, what: u8) -> bool {
        let mut f = self.fail.borrow_mut();
        let mut hit = false;
        let mut i = 0;
        while i < f.len() {
            if f[i].0 == what {
                if f[i].1 == 0 {
                    f.remove(i);
                    hit = true;
                    break;
                } else {
                    f[i].1 -= 1;
                }
            }
            i += 1;
        }
        hit
    }
}

pub struct Wrap<S> {
    pub inner: S,
    pub sh: Rc<WrapShared>,
}

impl<S> Wrap<S> {
    pub fn new(inner: S, sh: Rc<WrapShared>) -> Wrap<S> {
        Wrap { inner, sh }
    }
}

impl<S> Drop for Wrap<S> {
    fn drop(&mut self) {
        self.sh.drop_victims(9, "drop with its owner");
        self.sh.dropped.set(self.sh.dropped.get() + 1);
    }
}

#[derive(Debug)]
pub struct Scripted(pub &'static str);

impl std::fmt::Display for Scripted {
    fn fmt(&self, f: &mut std::fmt::Formatter<'_>) -> std::fmt::Result {
        write!(f, "scripted failure of {}", self.0)
    }
}

impl std::error::Error for Scripted {}

fn scripted_io(what: &'static str) -> calloop::Error {
    calloop::Error::OtherError(Box::new(Scripted(what)))
}

impl<S: EventSource> EventSource for Wrap<S> {
    type Event = S::Event;
    type Metadata = S::Metadata;
    type Ret = S::Ret;
    type Error = Box<dyn std::error::Error + Sync + Send>;

    fn process_events<F>(
        &mut self,
        readiness: Readiness,
        token: Token,
        callback: F,
    ) -> Result<PostAction, Self::Error>
    where
        F: FnMut(Self::Event, &mut Self::Metadata) -> Self::Ret,
    {
        self.sh.pe.set(self.sh.pe.get() + 1);
        let injected = crate::engine::pe_begin(self.sh.id, token.verif_key());
        if self.sh.should_fail(4) || injected {
            self.sh.last_ret.set(Some(LastRet::Err));
            crate::engine::note_failure(true, Scripted("process_events").to_string());
            crate::engine::pe_end(self.sh.id, LastRet::Err, true);
            return Err(Box::new(Scripted("process_events")));
        }
        let r = self.inner.process_events(readiness, token, callback);
        let lr = match &r {
            Ok(pa) => LastRet::Ok(*pa),
            Err(_) => LastRet::Err,
        };
        self.sh.last_ret.set(Some(lr));
        let r: Result<PostAction, Self::Error> = r.map_err(Into::into);
        if let Err(e) = &r {
            crate::engine::note_failure(true, e.to_string());
        }
        crate::engine::pe_end(self.sh.id, lr, false);
        r
    }

    fn register(&mut self, poll: &mut Poll, tf: &mut TokenFactory) -> calloop::Result<()> {
        self.sh.reg.set(self.sh.reg.get() + 1);
        self.sh.drop_victims(2, "drop inside register()");
        if self.sh.should_fail(1) {
            crate::engine::scripted_failure(self.sh.id, 1);
            crate::engine::note_failure(false, "register".into());
            return Err(scripted_io("register"));
        }
        let r = self.inner.register(poll, tf);
        if r.is_ok() {
            self.sh.registered.set(true);
        } else {
            crate::engine::note_failure(false, "register".into());
        }
        r
    }

    fn reregister(&mut self, poll: &mut Poll, tf: &mut TokenFactory) -> calloop::Result<()> {
        self.sh.rereg.set(self.sh.rereg.get() + 1);
        self.sh.drop_victims(1, "drop inside reregister()");
        if self.sh.should_fail(2) {
            crate::engine::scripted_failure(self.sh.id, 2);
            crate::engine::note_failure(false, "reregister".into());
            return Err(scripted_io("reregister"));
        }
        let r = self.inner.reregister(poll, tf);
        if r.is_err() {
            crate::engine::note_failure(false, "reregister".into());
        }
        r
    }

    fn unregister(&mut self, poll: &mut Poll) -> calloop::Result<()> {
        self.sh.unreg.set(self.sh.unreg.get() + 1);
        self.sh.drop_victims(0, "drop inside unregister()");
        if self.sh.should_fail(3) {
            crate::engine::scripted_failure(self.sh.id, 3);
            crate::engine::note_failure(false, "unregister".into());
            return Err(scripted_io("unregister"));
        }
        let r = self.inner.unregister(poll);
        if r.is_ok() {
            self.sh.registered.set(false);
        } else {
            crate::engine::note_failure(false, "unregister".into());
        }
        r
    }

    const NEEDS_EXTRA_LIFECYCLE_EVENTS: bool = S::NEEDS_EXTRA_LIFECYCLE_EVENTS;

    fn before_sleep(&mut self) -> calloop::Result<Option<(Readiness, Token)>> {
        self.sh.before_sleep.set(self.sh.before_sleep.get() + 1);
        self.inner.before_sleep()
    }

    fn before_handle_events(&mut self, events: calloop::EventIterator<'_>) {
        self.sh.before_handle.set(self.sh.before_handle.get() + 1);
        self.inner.before_handle_events(events)
    }
}
