//! Command line: workers, aggregation, minimisation, known findings, evidence.
//!
//! dsim check <PROP> <quick|thorough>     the registered check of one property
//! dsim worker ...                         (internal) one worker process
//! dsim replay <file>                      re-execute a replay file, must fail the same way
//! dsim one <profile> <seed>               print one generated program and its trace
//! dsim smoke <profile> <from> <n>         quick in-process sweep (development aid)

use std::collections::{BTreeMap, BTreeSet};
use std::io::Write;
use std::process::{Command, Stdio};
use std::sync::atomic::{AtomicU64, Ordering};
use std::time::Instant;

use serde::{Deserialize, Serialize};
use serde_json::json;

use crate::engine::{run, RunResult};
use crate::gen::generate;
use crate::minimise::minimise;
use crate::program::Program;
use crate::rng::splitmix;
use crate::sim::{Violation, SITE_NAMES};

pub fn verif_dir() -> String {
    std::env::var("VERIF_HOME").unwrap_or_else(|_| "/verif".to_string())
}

#[derive(Serialize, Deserialize, Clone, Debug)]
pub struct Found {
    pub idx: u64,
    pub run_seed: u64,
    pub violation: Violation,
    pub program: Program,
}

#[derive(Serialize, Deserialize, Default, Debug)]
pub struct WorkerOut {
    pub runs: u64,
    pub nontrivial: Vec<u64>,
    pub rule_evals: u64,
    pub probes: BTreeMap<String, u64>,
    pub points: BTreeMap<String, u64>,
    pub op_counts: BTreeMap<String, u64>,
    pub fault_kinds: BTreeMap<String, u64>,
    pub sim_ns: u64,
    pub steps: u64,
    pub ops: u64,
    pub dispatches: u64,
    pub callbacks: u64,
    pub own: Vec<Found>,
    pub own_class_counts: BTreeMap<String, u64>,
    pub foreign_class_counts: BTreeMap<String, u64>,
    pub samples: Vec<serde_json::Value>,
    pub log_fp: u64,
    #[serde(default)]
    pub fault_variants: u64,
    #[serde(default)]
    pub c08_cells: BTreeMap<String, u64>,
    #[serde(default)]
    pub last_idx: u64,
}

static CUR_IDX: AtomicU64 = AtomicU64::new(0);

extern "C" fn on_alarm(_: i32) {
    let idx = CUR_IDX.load(Ordering::Relaxed);
    let msg = format!("WATCHDOG run index {} exceeded its wall-clock budget\n", idx);
    unsafe {
        libc::write(2, msg.as_ptr() as *const libc::c_void, msg.len());
        libc::_exit(4);
    }
}

/// Per-run watchdog: 20 s of CPU time (a run costs well under a millisecond; CPU time, so that a
/// paused or overloaded machine cannot trip it) plus a generous wall-clock backstop for a run
/// that blocks in a system call.
fn arm_watchdog() {
    unsafe {
        let mut t: libc::itimerval = std::mem::zeroed();
        t.it_value.tv_sec = 20;
        libc::setitimer(libc::ITIMER_PROF, &t, std::ptr::null_mut());
        libc::alarm(900);
    }
}

/// which profile a run of property `prop` uses: two thirds its own, one third the mixed one
pub fn profile_for(prop: &str, idx: u64) -> String {
    if idx % 3 == 2 {
        "core".to_string()
    } else {
        prop.to_string()
    }
}

pub fn run_seed(base: u64, idx: u64) -> u64 {
    splitmix(base.wrapping_mul(0x1000_0000_01B3) ^ idx)
}

pub fn program_for(prop: &str, base: u64, idx: u64) -> Program {
    generate(&profile_for(prop, idx), run_seed(base, idx))
}

fn absorb(out: &mut WorkerOut, prop: &str, idx: u64, rs: u64, p: &Program, r: &RunResult) {
    out.runs += 1;
    if let Some((h, n)) = r.fp.get(prop) {
        if *n > 0 {
            out.nontrivial.push(*h);
            out.rule_evals += *n as u64;
        }
    }
    for (k, v) in &r.probes {
        *out.probes.entry(k.to_string()).or_insert(0) += v;
    }
    for (i, v) in r.points.iter().enumerate() {
        if *v > 0 {
            *out.points.entry(SITE_NAMES[i].to_string()).or_insert(0) += v;
        }
    }
    for (k, v) in &r.op_counts {
        *out.op_counts.entry(k.to_string()).or_insert(0) += v;
    }
    if prop == "C08" {
        for (k, v) in &r.c08_cells {
            *out.c08_cells.entry(k.clone()).or_insert(0) += v;
        }
    }
    for (s, e) in &r.faults_fired {
        let name = match s {
            4 => "process_events_returns_error".to_string(),
            5 => format!("poll_wait_error_errno{}", e),
            _ => format!("epoll_ctl_seam{}_errno{}", s, e),
        };
        *out.fault_kinds.entry(name).or_insert(0) += 1;
    }
    out.sim_ns += r.stats.sim_ns;
    out.steps += r.stats.steps;
    out.ops += r.stats.ops;
    out.dispatches += r.stats.dispatches;
    out.callbacks += r.stats.callbacks;
    if let Some(v) = r.violations.first() {
        let class = v.class();
        // every violation is collected; one whose rule does not witness this check's property
        // is "foreign": it is still reported (under the rule's own property), unless it is a
        // known finding of that other property
        let c = out.own_class_counts.entry(class.clone()).or_insert(0);
        *c += 1;
        if *c <= 3 {
            out.own.push(Found { idx, run_seed: rs, violation: v.clone(), program: p.clone() });
        }
        if !v.props.iter().any(|p| p == prop) {
            *out.foreign_class_counts.entry(class).or_insert(0) += 1;
        }
    }
}

fn worker(args: &[String]) -> i32 {
    let prop = &args[0];
    let base: u64 = args[1].parse().unwrap();
    let from: u64 = args[2].parse().unwrap();
    let count: u64 = args[3].parse().unwrap();
    let outfile = &args[4];
    unsafe {
        libc::signal(libc::SIGALRM, on_alarm as usize);
        libc::signal(libc::SIGPROF, on_alarm as usize);
    }
    let mut out = WorkerOut::default();
    let mut log = crate::rng::Fp::default();
    let progress = std::fs::File::create(format!("{}.progress", outfile)).ok();
    let note = |idx: u64, f: Option<&crate::program::Fault>| {
        use std::os::unix::fs::FileExt;
        if let Some(p) = &progress {
            let (a, b, c) = f.map(|f| (f.site as u64, f.nth as u64, f.errno as u64)).unwrap_or((255, 0, 0));
            let mut buf = [0u8; 32];
            buf[0..8].copy_from_slice(&idx.to_le_bytes());
            buf[8..16].copy_from_slice(&a.to_le_bytes());
            buf[16..24].copy_from_slice(&b.to_le_bytes());
            buf[24..32].copy_from_slice(&c.to_le_bytes());
            let _ = p.write_at(&buf, 0);
        }
    };
    for idx in from..from + count {
        CUR_IDX.store(idx, Ordering::Relaxed);
        note(idx, None);
        arm_watchdog();
        let rs = run_seed(base, idx);
        let p = generate(&profile_for(prop, idx), rs);
        let want_sample = out.samples.len() < 2 && idx % 7 == 3;
        let r = run(&p, want_sample);
        // determinism fingerprint: everything observable about the run
        log.add(idx);
        for (k, (h, n)) in &r.fp {
            log.add_str(k);
            log.add(*h);
            log.add(*n as u64);
        }
        log.add(r.stats.sim_ns);
        log.add(r.stats.callbacks);
        for v in &r.violations {
            log.add_str(&v.class());
        }
        if want_sample && r.violations.is_empty() {
            out.samples.push(json!({
                "run_index": idx,
                "run_seed": rs,
                "profile": p.profile,
                "steps": p.steps.iter().map(crate::engine::brief).collect::<Vec<_>>(),
                "trace": r.trace.iter().take(60).collect::<Vec<_>>(),
            }));
        }
        absorb(&mut out, prop, idx, rs, &p, &r);
        if prop == "C15" && r.violations.is_empty() {
            // fault enumeration: the fault-free run numbered every fault site it passed;
            // re-run the same history once per site with exactly that site failing
            const ERRNOS: [i32; 5] = [libc::EEXIST, libc::ENOENT, libc::EBADF, libc::EPERM, libc::ENOMEM];
            let mut variants = Vec::new();
            for k in 0..r.sites[0].min(48) {
                variants.push(crate::program::Fault { site: 0, nth: k, errno: ERRNOS[(k as usize + idx as usize) % 5] });
            }
            for k in 0..r.sites[1].min(32) {
                variants.push(crate::program::Fault { site: 4, nth: k, errno: 0 });
            }
            for k in 0..r.sites[2].min(12) {
                variants.push(crate::program::Fault { site: 5, nth: k, errno: libc::EBADF });
            }
            let mut sets: Vec<Vec<crate::program::Fault>> = variants.iter().map(|f| vec![f.clone()]).collect();
            // thorough tier: pairs of faults for short histories
            if std::env::var("VERIF_TIER_INTERNAL").map(|t| t == "thorough").unwrap_or(false) && variants.len() <= 10 && idx % 4 == 0 {
                for a in 0..variants.len() {
                    for b in a + 1..variants.len() {
                        sets.push(vec![variants[a].clone(), variants[b].clone()]);
                    }
                }
            }
            for fs in sets {
                if !p.faults.is_empty() {
                    break; // this base program already carries random faults
                }
                let mut q = p.clone();
                let f = fs[0].clone();
                note(idx, Some(&f));
                q.faults = fs;
                arm_watchdog();
                let r2 = run(&q, false);
                log.add(r2.stats.callbacks);
                out.fault_variants += 1;
                absorb(&mut out, prop, idx, rs, &q, &r2);
            }
        }
    }
    unsafe {
        libc::alarm(0);
        let z: libc::itimerval = std::mem::zeroed();
        libc::setitimer(libc::ITIMER_PROF, &z, std::ptr::null_mut());
    }
    out.log_fp = log.0;
    out.last_idx = from + count;
    std::fs::write(outfile, serde_json::to_vec(&out).unwrap()).unwrap();
    let _ = std::fs::remove_file(format!("{}.progress", outfile));
    0
}

/// Does the program kill the process (abort, stack overflow ...) when run in a child?
/// The violation class of a program, computed in a forked child (the driver is single-threaded).
fn class_isolated(p: &Program) -> Option<String> {
    unsafe {
        let mut fds = [0i32; 2];
        if libc::pipe(fds.as_mut_ptr()) != 0 {
            return first_violation(p).map(|v| v.class());
        }
        let pid = libc::fork();
        if pid < 0 {
            libc::close(fds[0]);
            libc::close(fds[1]);
            return first_violation(p).map(|v| v.class());
        }
        if pid == 0 {
            libc::close(fds[0]);
            let c = first_violation(p).map(|v| v.class()).unwrap_or_default();
            let b = c.as_bytes();
            let mut off = 0;
            while off < b.len() {
                let n = libc::write(fds[1], b[off..].as_ptr() as *const libc::c_void, b.len() - off);
                if n <= 0 {
                    break;
                }
                off += n as usize;
            }
            libc::_exit(0);
        }
        libc::close(fds[1]);
        let mut out = Vec::new();
        let mut buf = [0u8; 4096];
        loop {
            let n = libc::read(fds[0], buf.as_mut_ptr() as *mut libc::c_void, buf.len());
            if n <= 0 {
                break;
            }
            out.extend_from_slice(&buf[..n as usize]);
        }
        libc::close(fds[0]);
        let mut st = 0;
        libc::waitpid(pid, &mut st, 0);
        if !libc::WIFEXITED(st) || libc::WEXITSTATUS(st) != 0 {
            return Some("process.abort[]".into());
        }
        let s = String::from_utf8_lossy(&out).to_string();
        if s.is_empty() {
            None
        } else {
            Some(s)
        }
    }
}

fn dies_in_child(p: &Program, tag: &str) -> bool {
    let path = format!("{}/work/abort-probe-{}-{}.json", verif_dir(), std::process::id(), tag);
    let rf = ReplayFile {
        property: "-".into(),
        class: "process.abort[]".into(),
        violation: abort_violation("-", "probe"),
        found_by: json!({}),
        program: p.clone(),
        trace: vec![],
    };
    if std::fs::write(&path, serde_json::to_vec(&rf).unwrap()).is_err() {
        return false;
    }
    let st = Command::new(std::env::current_exe().unwrap()).args(["replay", &path]).stdout(Stdio::null()).stderr(Stdio::null()).status();
    let _ = std::fs::remove_file(&path);
    match st {
        Ok(s) => {
            use std::os::unix::process::ExitStatusExt;
            s.signal().is_some()
        }
        Err(_) => false,
    }
}

fn abort_violation(prop: &str, detail: &str) -> Violation {
    let mut props = vec!["C08".to_string(), "C15".to_string()];
    if !props.iter().any(|p| p == prop) && prop != "-" {
        props.push(prop.to_string());
    }
    Violation { rule: "process.abort".into(), props, flags: vec![], detail: detail.to_string(), step: 0 }
}

#[derive(Deserialize, Default, Debug, Clone)]
pub struct KnownFinding {
    pub id: String,
    pub properties: Vec<String>,
    pub rule: String,
    #[serde(default)]
    pub required_flags: Vec<String>,
    pub description: String,
}

#[derive(Deserialize, Default, Debug)]
pub struct KnownFile {
    #[serde(default)]
    pub findings: Vec<KnownFinding>,
    #[serde(default)]
    pub fixed: Vec<String>,
}

pub fn load_known() -> KnownFile {
    let p = format!("{}/known_findings.json", verif_dir());
    match std::fs::read_to_string(&p) {
        Ok(s) => serde_json::from_str(&s).unwrap_or_else(|e| {
            eprintln!("cannot parse {}: {}", p, e);
            std::process::exit(2)
        }),
        Err(_) => KnownFile::default(),
    }
}

pub fn match_known<'a>(k: &'a KnownFile, v: &Violation) -> Option<&'a KnownFinding> {
    k.findings.iter().find(|f| f.rule == v.rule && f.required_flags.iter().all(|x| v.flags.contains(x)))
}

fn first_violation(p: &Program) -> Option<Violation> {
    run(p, false).violations.into_iter().next()
}

#[derive(Serialize, Deserialize)]
pub struct ReplayFile {
    pub property: String,
    pub class: String,
    pub violation: Violation,
    pub found_by: serde_json::Value,
    pub program: Program,
    pub trace: Vec<String>,
}

fn replay(path: &str) -> i32 {
    let s = match std::fs::read_to_string(path) {
        Ok(s) => s,
        Err(e) => {
            eprintln!("cannot read {}: {}", path, e);
            return 2;
        }
    };
    let rf: ReplayFile = match serde_json::from_str(&s) {
        Ok(r) => r,
        Err(e) => {
            eprintln!("cannot parse {}: {}", path, e);
            return 2;
        }
    };
    let r = run(&rf.program, true);
    for l in &r.trace {
        println!("{}", l);
    }
    match r.violations.first() {
        Some(v) if v.class() == rf.class => {
            println!("REPRODUCED property={} class={} detail={}", rf.property, v.class(), v.detail);
            1
        }
        Some(v) => {
            println!("DIFFERENT violation: {} (file says {})", v.class(), rf.class);
            3
        }
        None => {
            println!("NOT REPRODUCED: the program ran without violation (file says {})", rf.class);
            0
        }
    }
}

fn tier_runs(prop: &str, tier: &str) -> u64 {
    let q = match prop {
        "C16" => 120_000,
        "C15" => 30_000,
        "C17" | "C10" | "C08" => 200_000,
        _ => 300_000,
    };
    match tier {
        "thorough" => q * 40,
        _ => q,
    }
}

fn check(prop: &str, tier: &str) -> i32 {
    let t0 = Instant::now();
    let base: u64 = std::env::var("VERIF_SEED").ok().and_then(|s| s.parse().ok()).unwrap_or(1);
    let total: u64 = std::env::var("VERIF_RUNS").ok().and_then(|s| s.parse().ok()).unwrap_or_else(|| tier_runs(prop, tier));
    let nw: u64 = std::env::var("VERIF_WORKERS").ok().and_then(|s| s.parse().ok()).unwrap_or(16);
    println!("check property={} tier={} VERIF_SEED={} runs={} workers={}", prop, tier, base, total, nw);
    let exe = std::env::current_exe().unwrap();
    let work = format!("{}/work", verif_dir());
    std::fs::create_dir_all(&work).ok();
    std::fs::create_dir_all(format!("{}/replays", verif_dir())).ok();
    std::fs::create_dir_all(format!("{}/evidence", verif_dir())).ok();
    let per = (total + nw - 1) / nw;
    let mut children = Vec::new();
    let spawn = |w: u64, from: u64, cnt: u64, gen: u32| -> Result<(std::process::Child, String, u64, u64, u64, u32), String> {
        let out = format!("{}/{}-{}-{}-{}.json", work, prop, std::process::id(), w, gen);
        Command::new(&exe)
            .env("VERIF_TIER_INTERNAL", tier)
            .args(["worker", prop, &base.to_string(), &from.to_string(), &cnt.to_string(), &out])
            .stdin(Stdio::null())
            .spawn()
            .map(|c| (c, out, from, cnt, w, gen))
            .map_err(|e| e.to_string())
    };
    for w in 0..nw {
        let from = w * per;
        if from >= total {
            break;
        }
        let cnt = per.min(total - from);
        match spawn(w, from, cnt, 0) {
            Ok(c) => children.push(c),
            Err(e) => {
                eprintln!("HARNESS-ERROR cannot spawn worker: {}", e);
                return 2;
            }
        }
    }
    let mut merged = WorkerOut::default();
    let mut distinct: BTreeSet<u64> = BTreeSet::new();
    let mut log_fps = Vec::new();
    let mut aborts: Vec<Found> = Vec::new();
    let mut skipped_after_aborts = 0u64;
    let mut queue: std::collections::VecDeque<_> = children.into();
    while let Some((mut c, out, from, cnt, w, gen)) = queue.pop_front() {
        let st = c.wait().unwrap();
        if !st.success() {
            use std::os::unix::process::ExitStatusExt;
            // a worker died: if the code under test killed the process (abort, stack overflow)
            // that is a violation of the run it was executing, not a harness error
            let prog = std::fs::read(format!("{}.progress", out)).ok();
            let _ = std::fs::remove_file(format!("{}.progress", out));
            let rd = |b: &[u8], i: usize| u64::from_le_bytes(b[i * 8..i * 8 + 8].try_into().unwrap());
            match (st.signal(), prog) {
                (Some(sig), Some(b)) if b.len() == 32 && st.code() != Some(4) => {
                    let idx = rd(&b, 0);
                    let mut p = program_for(prop, base, idx);
                    if rd(&b, 1) != 255 {
                        p.faults = vec![crate::program::Fault { site: rd(&b, 1) as u8, nth: rd(&b, 2) as u32, errno: rd(&b, 3) as i32 }];
                    }
                    if aborts.len() >= 6 {
                        // plenty of fatal runs already: the rest of this range is skipped
                        skipped_after_aborts += from + cnt - idx;
                        continue;
                    }
                    if !dies_in_child(&p, "confirm") {
                        eprintln!("HARNESS-ERROR worker for run indices {}..{} died with signal {} at run index {} but the run does not kill a fresh process (VERIF_SEED={})", from, from + cnt, sig, idx, base);
                        return 2;
                    }
                    aborts.push(Found { idx, run_seed: run_seed(base, idx), violation: abort_violation(prop, &format!("the process was killed by signal {} while executing this history (abort / double panic / stack overflow inside the code under test)", sig)), program: p });
                    // carry on after the fatal run
                    let next = idx + 1;
                    if next < from + cnt && gen < 3 {
                        match spawn(w, next, from + cnt - next, gen + 1) {
                            Ok(c) => queue.push_back(c),
                            Err(e) => {
                                eprintln!("HARNESS-ERROR cannot spawn worker: {}", e);
                                return 2;
                            }
                        }
                    }
                    continue;
                }
                _ => {
                    eprintln!("HARNESS-ERROR worker for run indices {}..{} died: {:?} (VERIF_SEED={})", from, from + cnt, st, base);
                    return 2;
                }
            }
        }
        let w: WorkerOut = match std::fs::read(&out).ok().and_then(|b| serde_json::from_slice(&b).ok()) {
            Some(w) => w,
            None => {
                eprintln!("HARNESS-ERROR worker output {} unreadable", out);
                return 2;
            }
        };
        std::fs::remove_file(&out).ok();
        merged.runs += w.runs;
        merged.rule_evals += w.rule_evals;
        distinct.extend(w.nontrivial.iter().copied());
        merged.nontrivial.extend(w.nontrivial);
        for (k, v) in w.probes {
            *merged.probes.entry(k).or_insert(0) += v;
        }
        for (k, v) in w.points {
            *merged.points.entry(k).or_insert(0) += v;
        }
        for (k, v) in w.op_counts {
            *merged.op_counts.entry(k).or_insert(0) += v;
        }
        for (k, v) in w.c08_cells {
            *merged.c08_cells.entry(k).or_insert(0) += v;
        }
        for (k, v) in w.fault_kinds {
            *merged.fault_kinds.entry(k).or_insert(0) += v;
        }
        for (k, v) in w.own_class_counts {
            *merged.own_class_counts.entry(k).or_insert(0) += v;
        }
        for (k, v) in w.foreign_class_counts {
            *merged.foreign_class_counts.entry(k).or_insert(0) += v;
        }
        merged.sim_ns += w.sim_ns;
        merged.steps += w.steps;
        merged.ops += w.ops;
        merged.dispatches += w.dispatches;
        merged.callbacks += w.callbacks;
        merged.fault_variants += w.fault_variants;
        merged.own.extend(w.own);
        if merged.samples.len() < 3 {
            merged.samples.extend(w.samples);
        }
        log_fps.push(format!("{:016x}", w.log_fp));
    }
    if skipped_after_aborts > 0 {
        println!("note: {} runs were skipped after repeated process aborts", skipped_after_aborts);
    }
    for a in &aborts {
        *merged.own_class_counts.entry(a.violation.class()).or_insert(0) += 1;
    }
    merged.own.extend(aborts);
    // ---- violations: one representative per class, minimised, replay-verified
    let known = load_known();
    merged.own.sort_by_key(|f| f.idx);
    let mut by_class: BTreeMap<String, Found> = BTreeMap::new();
    for f in &merged.own {
        by_class.entry(f.violation.class()).or_insert_with(|| f.clone());
    }
    let mut n_viol = 0;
    let mut known_lines = Vec::new();
    let mut viol_records = Vec::new();
    for (class, f) in &by_class {
        if f.violation.rule == "process.abort" {
            // cannot be re-run in this process: minimise with child processes
            let (min, ms) = minimise(&f.program, 250, &mut |p| dies_in_child(p, "min"));
            let fname = format!("{}/replays/{}-{}-{}.json", verif_dir(), prop, sanitize(class), f.run_seed);
            let rf = ReplayFile {
                property: prop.to_string(),
                class: class.clone(),
                violation: f.violation.clone(),
                found_by: json!({"VERIF_SEED": base, "run_index": f.idx, "run_seed": f.run_seed, "original_ops": f.program.count_ops(), "minimised_ops": min.count_ops(), "minimiser_candidates": ms.candidates}),
                program: min.clone(),
                trace: vec!["(the process dies; run `bin/check replay` on this file to see it)".into()],
            };
            std::fs::write(&fname, serde_json::to_string_pretty(&rf).unwrap()).unwrap();
            let count = merged.own_class_counts.get(class).copied().unwrap_or(0);
            if let Some(k) = match_known(&known, &f.violation) {
                known_lines.push(format!("KNOWN-FINDING: property={} {} [{}; {} runs; replay={}]", prop, k.description, k.id, count, fname));
                viol_records.push(json!({"class": class, "known_finding": k.id, "runs": count, "replay": fname}));
            } else {
                n_viol += 1;
                println!("VIOLATION property={} replay={}", prop, fname);
                println!("  rule=process.abort runs={} minimised {} -> {} ops", count, f.program.count_ops(), min.count_ops());
                println!("  {}", f.violation.detail);
                viol_records.push(json!({"class": class, "runs": count, "replay": fname, "detail": f.violation.detail}));
            }
            continue;
        }
        // the original program must reproduce in this process too, else it is a harness error
        let again = first_violation(&f.program);
        if again.as_ref().map(|v| v.class()) != Some(class.clone()) {
            eprintln!("HARNESS-ERROR violation {} of run index {} (VERIF_SEED={}) did not reproduce in the driver: nondeterminism", class, f.idx, base);
            return 2;
        }
        let budget = if tier == "thorough" { 6000 } else { 2500 };
        // candidates run in forked children: a shrunken history may kill the process (a panic
        // inside a drop aborts) where the original only reported a violation
        let (min, ms) = minimise(&f.program, budget, &mut |p| class_isolated(p) == Some(class.clone()));
        let r = run(&min, true);
        let v = r.violations.first().cloned().unwrap_or_else(|| f.violation.clone());
        let fname = format!("{}/replays/{}-{}-{}.json", verif_dir(), prop, sanitize(class), f.run_seed);
        let rf = ReplayFile {
            property: prop.to_string(),
            class: class.clone(),
            violation: v.clone(),
            found_by: json!({"VERIF_SEED": base, "run_index": f.idx, "run_seed": f.run_seed, "original_ops": f.program.count_ops(), "minimised_ops": min.count_ops(), "minimiser_candidates": ms.candidates}),
            program: min.clone(),
            trace: r.trace.clone(),
        };
        std::fs::write(&fname, serde_json::to_string_pretty(&rf).unwrap()).unwrap();
        // replay in a fresh process must fail the same way
        let st = Command::new(&exe).args(["replay", &fname]).stdout(Stdio::null()).status();
        let reproduced = matches!(st.as_ref().map(|s| s.code()), Ok(Some(1)));
        if !reproduced {
            eprintln!("HARNESS-ERROR replay of {} in a fresh process did not reproduce ({:?})", fname, st);
            return 2;
        }
        let count = merged.own_class_counts.get(class).copied().unwrap_or(0);
        let foreign = !v.props.iter().any(|p| p == prop);
        // a violation found while exploring for this property but witnessing another one is
        // reported under that property's id
        let vprop = if foreign { v.props.first().cloned().unwrap_or_else(|| prop.to_string()) } else { prop.to_string() };
        if let Some(k) = match_known(&known, &v) {
            if foreign {
                println!("note: {} runs ended on known finding {} of property {} (its own check reports it)", count, k.id, vprop);
            } else {
                known_lines.push(format!("KNOWN-FINDING: property={} {} [{}; {} runs; replay={}]", prop, k.description, k.id, count, fname));
            }
            viol_records.push(json!({"class": class, "known_finding": k.id, "runs": count, "replay": fname, "property": vprop}));
        } else {
            n_viol += 1;
            println!("VIOLATION property={} replay={}", vprop, fname);
            println!("  rule={} flags={:?} runs={} minimised {} -> {} ops", v.rule, v.flags, count, f.program.count_ops(), min.count_ops());
            println!("  {}", v.detail);
            viol_records.push(json!({"class": class, "runs": count, "replay": fname, "detail": v.detail}));
        }
    }
    for l in &known_lines {
        println!("{}", l);
    }

    let wall = t0.elapsed().as_secs_f64();
    // ---- evidence
    let zero_probes: Vec<&str> = crate::gen::EXPECTED_PROBES.iter().copied().filter(|p| merged.probes.get(*p).copied().unwrap_or(0) == 0).collect();
    let ev = json!({
        "property_id": prop,
        "tier": if tier == "thorough" { "thorough" } else { "quick" },
        "seed": base,
        "level": level_of(prop),
        "coverage": {
            "evaluations": merged.runs,
            "distinct_nontrivial": distinct.len(),
            "rule": format!("one evaluation = one generated program (profile {} for two runs out of three, the mixed profile 'core' for the third) executed against a real EventLoop and the reference model in lock-step; a run is non-trivial for {} if at least one oracle rule of {} was evaluated in it (not merely armed); two runs are distinct if the sequences of (rule, abstract context) evaluations of {} differ (64-bit hash of that sequence)", prop, prop, prop, prop),
            "samples": merged.samples,
            "nontrivial_runs": merged.nontrivial.len(),
            "fault_site_variants": merged.fault_variants,
            "reentrancy_matrix_cells_covered": merged.c08_cells.len(),
            "reentrancy_matrix": merged.c08_cells,
            "rule_evaluations": merged.rule_evals,
            "runs_per_hour": (merged.runs as f64 / wall * 3600.0) as u64,
            "simulated_time_s": merged.sim_ns as f64 / 1e9,
            "steps": merged.steps,
            "operations_executed": merged.ops,
            "dispatches": merged.dispatches,
            "callbacks_observed": merged.callbacks,
            "fault_kinds_fired": merged.fault_kinds,
            "reach_probes": merged.probes,
            "reach_probes_at_zero": zero_probes,
            "trace_points": merged.points,
            "operation_mix": merged.op_counts,
            "violation_classes": viol_records,
            "foreign_rule_hits": merged.foreign_class_counts,
            "worker_log_fingerprints": log_fps,
            "components": {
                "real": ["calloop (all of /repo/src, rebuilt from the working tree)", "polling 3.11", "async-task", "slab", "rustix/nix", "Linux epoll, eventfd, socketpair, pipe"],
                "stub": ["clock (virtual, discrete-event)", "the blocking in epoll_wait (zero-timeout real poll + clock jump)"]
            }
        },
        "assumptions": [
            "sampling, not enumeration: a clean batch is evidence, not proof",
            "polling's notifier and epoll_wait timeout accuracy are trusted (the notifier state is observed through the real eventfd counter)",
            "Linux/epoll back end only"
        ],
        "wall_s": wall,
        "violations": n_viol
    });
    let evp = format!("{}/evidence/{}.json", verif_dir(), prop);
    std::fs::write(&evp, serde_json::to_string_pretty(&ev).unwrap()).unwrap();
    println!(
        "{}: {} runs, {} non-trivial ({} distinct), {} unlisted violation classes, {} known findings, {:.1}s, evidence {}",
        prop,
        merged.runs,
        merged.nontrivial.len(),
        distinct.len(),
        n_viol,
        known_lines.len(),
        wall,
        evp
    );
    std::io::stdout().flush().ok();
    if n_viol > 0 {
        1
    } else {
        0
    }
}

fn level_of(prop: &str) -> &'static str {
    match prop {
        "C15" => "fault_enumeration",
        _ => "exploration",
    }
}

fn sanitize(s: &str) -> String {
    s.chars().map(|c| if c.is_ascii_alphanumeric() || c == '.' || c == '_' { c } else { '-' }).collect::<String>().trim_matches('-').chars().take(80).collect()
}

/// Determinism self-test: every run index executed twice, in different processes and with
/// different partitionings; the per-run fingerprints must agree.
fn selftest_determinism(args: &[String]) -> i32 {
    let prop = args.first().cloned().unwrap_or_else(|| "core".into());
    let n: u64 = args.get(1).and_then(|s| s.parse().ok()).unwrap_or(20_000);
    let base: u64 = std::env::var("VERIF_SEED").ok().and_then(|s| s.parse().ok()).unwrap_or(1);
    let exe = std::env::current_exe().unwrap();
    let mut results: Vec<BTreeMap<u64, String>> = Vec::new();
    for nw in [16u64, 3] {
        let per = (n + nw - 1) / nw;
        let mut ch = Vec::new();
        for w in 0..nw {
            let from = w * per;
            if from >= n {
                break;
            }
            let cnt = per.min(n - from);
            let c = Command::new(&exe).args(["fingerprints", &prop, &base.to_string(), &from.to_string(), &cnt.to_string()]).stdout(Stdio::piped()).spawn().unwrap();
            ch.push(c);
        }
        let mut m = BTreeMap::new();
        for c in ch {
            let o = c.wait_with_output().unwrap();
            if !o.status.success() {
                eprintln!("HARNESS-ERROR fingerprint worker died");
                return 2;
            }
            for l in String::from_utf8_lossy(&o.stdout).lines() {
                if let Some((a, b)) = l.split_once(' ') {
                    m.insert(a.parse::<u64>().unwrap(), b.to_string());
                }
            }
        }
        results.push(m);
    }
    let mut diff = 0;
    for (k, v) in &results[0] {
        if results[1].get(k) != Some(v) {
            if diff < 10 {
                println!("DIVERGENCE run index {}: {} vs {:?}", k, v, results[1].get(k));
            }
            diff += 1;
        }
    }
    println!("determinism: {} run indices of profile {} executed twice (16 and 3 workers): {} divergences", results[0].len(), prop, diff);
    if diff > 0 {
        1
    } else {
        0
    }
}

fn fingerprints(args: &[String]) -> i32 {
    let prop = &args[0];
    let base: u64 = args[1].parse().unwrap();
    let from: u64 = args[2].parse().unwrap();
    let count: u64 = args[3].parse().unwrap();
    let mut out = String::new();
    // reverse order on purpose: run order must not matter
    for idx in (from..from + count).rev() {
        let p = program_for(prop, base, idx);
        let r = run(&p, true);
        let mut fp = crate::rng::Fp::default();
        for l in &r.trace {
            fp.add_str(l);
        }
        for v in &r.violations {
            fp.add_str(&v.class());
            fp.add_str(&v.detail);
        }
        out.push_str(&format!("{} {:016x}\n", idx, fp.0));
    }
    print!("{}", out);
    0
}

pub fn main() -> i32 {
    // panics of the code under test are caught and reported as violations; keep stderr quiet
    // and remember where the panic came from
    std::panic::set_hook(Box::new(|info| {
        let loc = info.location().map(|l| format!("{}:{}", l.file(), l.line())).unwrap_or_default();
        if std::env::var("VERIF_PANIC_TRACE").is_ok() {
            eprintln!("panic: {} at {}\n{}", info, loc, std::backtrace::Backtrace::force_capture());
        }
        crate::engine::LAST_PANIC_LOC.with(|l| *l.borrow_mut() = loc);
    }));
    let args: Vec<String> = std::env::args().collect();
    unsafe {
        // plenty of descriptors: a run that fails may leave a few behind
        let mut rl = libc::rlimit { rlim_cur: 0, rlim_max: 0 };
        if libc::getrlimit(libc::RLIMIT_NOFILE, &mut rl) == 0 {
            rl.rlim_cur = rl.rlim_max.min(65536);
            libc::setrlimit(libc::RLIMIT_NOFILE, &rl);
        }
    }
    match args.get(1).map(|s| s.as_str()) {
        Some("check") if args.len() >= 4 => check(&args[2], &args[3]),
        Some("worker") => worker(&args[2..]),
        Some("replay") if args.len() >= 3 => replay(&args[2]),
        Some("confirm") if args.len() >= 3 => crate::confirm::main(&args[2]),
        Some("selftest-determinism") => selftest_determinism(&args[2..]),
        Some("fingerprints") => fingerprints(&args[2..]),
        Some("one") => {
            let profile = &args[2];
            let seed: u64 = args[3].parse().unwrap();
            let p = generate(profile, seed);
            println!("{}", serde_json::to_string_pretty(&p).unwrap());
            let r = run(&p, true);
            for l in &r.trace {
                println!("{}", l);
            }
            for v in &r.violations {
                println!("VIOL {:?}", v);
            }
            0
        }
        Some("smoke") => {
            let profile = &args[2];
            let from: u64 = args[3].parse().unwrap();
            let n: u64 = args[4].parse().unwrap();
            let mut nv = 0;
            let mut classes = BTreeMap::new();
            let t0 = Instant::now();
            for s in from..from + n {
                let p = generate(profile, s);
                let r = run(&p, false);
                if let Some(v) = r.violations.first() {
                    nv += 1;
                    let e = classes.entry(v.class()).or_insert((0u32, s, v.detail.clone()));
                    e.0 += 1;
                }
            }
            println!("{} runs, {} with violations, {:.2}s", n, nv, t0.elapsed().as_secs_f64());
            for (c, (n, s, d)) in classes {
                println!("{:5} x {}  first seed {}  {}", n, c, s, d);
            }
            0
        }
        _ => {
            eprintln!("usage: dsim check <PROP> <quick|thorough> | replay <file> | one <profile> <seed> | smoke <profile> <from> <n> | selftest-determinism [profile] [n]");
            2
        }
    }
}
