fn main() {
    std::process::exit(calloop_sim::tdriver::main());
}
