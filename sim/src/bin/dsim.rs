fn main() {
    std::process::exit(calloop_sim::driver::main());
}
