//! Command line of the thread-schedule simulator.
//!
//! tsim check <PROP> <quick|thorough>   tsim worker ...   tsim replay <file>   tsim one <PROP> <idx> <n>

use std::collections::{BTreeMap, BTreeSet};
use std::panic::{catch_unwind, AssertUnwindSafe};
use std::process::{Command, Stdio};
use std::sync::{Arc, Mutex};
use std::time::Instant;

use serde::{Deserialize, Serialize};
use serde_json::json;
use shuttle::scheduler::{PctScheduler, RandomScheduler, Scheduler};
use shuttle::{Config, Runner};

use crate::driver::{load_known, match_known, verif_dir};
use crate::rng::{splitmix, Rng};
use crate::sim::Violation;
use crate::tscen::run_scenario;
use crate::tsim::*;

fn config() -> Config {
    let mut c = Config::new();
    c.stack_size = 1 << 20;
    c.max_steps = shuttle::MaxSteps::FailAfter(400_000);
    c.failure_persistence = shuttle::FailurePersistence::None;
    c.silence_warnings = true;
    c
}

pub fn params_for(prop: &str, base: u64, idx: u64) -> Params {
    let mut r = Rng::new(splitmix(base.wrapping_mul(77) ^ idx) ^ 0x7517);
    let threads = 1 + r.below(3) as u32;
    let ops = 1 + r.below(3) as u32;
    let bound = match prop {
        "C04" => *r.pick(&[None, None, Some(0u32), Some(1), Some(2), Some(8)]),
        _ => None,
    };
    let variant = match prop {
        "C10" => r.below(8) as u32,
        "C03" => r.below(8) as u32,
        "C11" => r.below(8) as u32,
        _ => r.below(4) as u32,
    };
    Params { scenario: prop.to_string(), threads, ops, bound, variant, extra: r.next() as u32 }
}

#[derive(Default)]
struct Acc {
    /// order-sensitive fingerprint of everything observed (determinism self-test)
    log: u64,
    executions: u64,
    traces: BTreeSet<u64>,
    pair_orders: BTreeMap<String, [u64; 2]>,
    steps: u64,
    failed: Option<(Vec<Decision>, Violation, Vec<String>)>,
}

/// scheduler wrapper that inspects the finished execution before the next one starts
struct Inspect<S: Scheduler> {
    inner: Recording<S>,
    acc: Arc<Mutex<Acc>>,
    first: bool,
}

fn harvest(shared: &Arc<Mutex<Shared>>, acc: &Arc<Mutex<Acc>>) {
    let (fp, orders, lines, steps) = summarize();
    let viol = T.with(|t| t.borrow_mut().violation.take());
    let mut a = acc.lock().unwrap();
    a.executions += 1;
    a.log = splitmix(a.log ^ fp ^ (steps as u64) ^ shared.lock().unwrap().current.len() as u64);
    a.traces.insert(fp);
    a.steps += steps as u64;
    for (n, o) in orders {
        a.pair_orders.entry(n.to_string()).or_insert([0, 0])[o as usize] += 1;
    }
    if let Some(v) = viol {
        let mut sh = shared.lock().unwrap();
        sh.stop = true;
        if a.failed.is_none() {
            a.failed = Some((sh.current.clone(), v, lines));
        }
    }
}

impl<S: Scheduler> Scheduler for Inspect<S> {
    fn new_execution(&mut self) -> Option<shuttle::scheduler::Schedule> {
        if !self.first {
            harvest(&self.inner.shared, &self.acc);
        }
        self.first = false;
        self.inner.new_execution()
    }
    fn next_task(&mut self, r: &[&shuttle::scheduler::Task], c: Option<shuttle::scheduler::TaskId>, y: bool) -> Option<shuttle::scheduler::TaskId> {
        self.inner.next_task(r, c, y)
    }
    fn next_u64(&mut self) -> u64 {
        self.inner.next_u64()
    }
}

/// Explore `n` executions of one scenario instance under the given scheduler.
fn explore(p: &Params, sched_kind: u32, seed: u64, n: u64, acc: &Arc<Mutex<Acc>>) {
    let shared = Arc::new(Mutex::new(Shared::default()));
    let p2 = p.clone();
    let run = |s: Box<dyn Scheduler + Send>| {
        let insp = Inspect { inner: Recording { inner: s, shared: shared.clone(), max_executions: n }, acc: acc.clone(), first: true };
        let runner = Runner::new(insp, config());
        let p3 = p2.clone();
        let r = catch_unwind(AssertUnwindSafe(move || {
            runner.run(move || run_scenario(&p3));
        }));
        if let Err(e) = r {
            // a panic inside an execution (calloop panicked on some thread, or shuttle found a
            // deadlock): the execution is a violation with the decisions recorded so far
            let msg = crate::engine::panic_msg(&e);
            calloop::verif::install(None);
            let lines = summarize().2;
            let mut a = acc.lock().unwrap();
            a.executions += 1;
            if a.failed.is_none() {
                let deadlock = msg.contains("deadlock");
                let v = Violation {
                    rule: if deadlock { "tsim.deadlock".into() } else { "tsim.panic".into() },
                    props: vec![p2.scenario.clone(), "C08".into()],
                    flags: vec![format!("bound={:?}", p2.bound)],
                    detail: format!("execution died: {}", msg.chars().take(300).collect::<String>()),
                    step: 0,
                };
                a.failed = Some((shared.lock().unwrap().current.clone(), v, lines));
            }
            return;
        }
        // the last execution has not been inspected yet
        if shared.lock().unwrap().executions > 0 && !shared.lock().unwrap().stop {
            harvest(&shared, acc);
        }
    };
    match sched_kind {
        0 => run(Box::new(RandomScheduler::new_from_seed(seed, n as usize + 1))),
        d => run(Box::new(PctScheduler::new_from_seed(seed, d as usize, n as usize + 1))),
    }
}

/// Replay one decision list; returns (violation, actual decisions, trace).
fn replay_decisions(p: &Params, decisions: &[Decision], strict: bool) -> (Option<Violation>, Vec<Decision>, Vec<String>, bool) {
    let shared = Arc::new(Mutex::new(Shared::default()));
    let acc = Arc::new(Mutex::new(Acc::default()));
    let rep = Replaying { decisions: decisions.to_vec(), pos: 0, strict, shared: shared.clone(), started: false };
    let runner = Runner::new(rep, config());
    let p3 = p.clone();
    let r = catch_unwind(AssertUnwindSafe(move || {
        runner.run(move || run_scenario(&p3));
    }));
    let actual = shared.lock().unwrap().current.clone();
    let failed = shared.lock().unwrap().replay_failed;
    if let Err(e) = r {
        calloop::verif::install(None);
        let msg = crate::engine::panic_msg(&e);
        let deadlock = msg.contains("deadlock");
        let v = Violation {
            rule: if deadlock { "tsim.deadlock".into() } else { "tsim.panic".into() },
            props: vec![p.scenario.clone(), "C08".into()],
            flags: vec![format!("bound={:?}", p.bound)],
            detail: format!("execution died: {}", msg.chars().take(300).collect::<String>()),
            step: 0,
        };
        return (Some(v), actual, summarize().2, failed);
    }
    harvest(&shared, &acc);
    let a = acc.lock().unwrap();
    match &a.failed {
        Some((_, v, lines)) => (Some(v.clone()), actual, lines.clone(), failed),
        None => (None, actual, summarize().2, failed),
    }
}

#[derive(Serialize, Deserialize)]
pub struct TReplay {
    pub property: String,
    pub class: String,
    pub violation: Violation,
    pub found_by: serde_json::Value,
    pub params: Params,
    pub decisions: Vec<Decision>,
    pub trace: Vec<String>,
}

#[derive(Serialize, Deserialize, Default)]
struct TWorkerOut {
    instances: u64,
    executions: u64,
    traces: Vec<u64>,
    pair_orders: BTreeMap<String, [u64; 2]>,
    steps: u64,
    found: Vec<(u64, Params, Vec<Decision>, Violation, Vec<String>)>,
    class_counts: BTreeMap<String, u64>,
    samples: Vec<serde_json::Value>,
}

fn sched_for(idx: u64) -> u32 {
    match idx % 5 {
        0 | 1 => 0,
        2 => 1,
        3 => 2,
        _ => 3,
    }
}

fn worker(args: &[String]) -> i32 {
    let prop = &args[0];
    let base: u64 = args[1].parse().unwrap();
    let from: u64 = args[2].parse().unwrap();
    let count: u64 = args[3].parse().unwrap();
    let per: u64 = args[4].parse().unwrap();
    let outfile = &args[5];
    let mut out = TWorkerOut::default();
    for idx in from..from + count {
        let p = params_for(prop, base, idx);
        let acc = Arc::new(Mutex::new(Acc::default()));
        explore(&p, sched_for(idx), splitmix(base ^ idx.wrapping_mul(31)), per, &acc);
        let a = std::mem::take(&mut *acc.lock().unwrap());
        out.instances += 1;
        out.executions += a.executions;
        out.steps += a.steps;
        out.traces.extend(a.traces.iter().map(|t| t ^ splitmix(idx)));
        for (k, v) in a.pair_orders {
            let e = out.pair_orders.entry(k).or_insert([0, 0]);
            e[0] += v[0];
            e[1] += v[1];
        }
        if let Some((d, v, lines)) = a.failed {
            let c = out.class_counts.entry(v.class()).or_insert(0);
            *c += 1;
            if *c <= 2 {
                out.found.push((idx, p.clone(), d, v, lines));
            }
        } else if out.samples.len() < 1 && idx % 5 == 1 {
            let (_, _, lines, _) = replay_decisions(&p, &[], false);
            out.samples.push(json!({"instance": idx, "params": p, "scheduler": "default (run current thread until it blocks)", "history": lines.iter().take(50).collect::<Vec<_>>()}));
        }
    }
    std::fs::write(outfile, serde_json::to_vec(&out).unwrap()).unwrap();
    0
}

fn same_class(p: &Params, d: &[Decision], class: &str) -> Option<(Vec<Decision>, Violation, Vec<String>)> {
    let (v, actual, lines, _) = replay_decisions(p, d, false);
    match v {
        Some(v) if v.class() == class => Some((actual, v, lines)),
        _ => None,
    }
}

/// Minimise: smaller parameters first (re-search with PCT and random), then the decision list.
fn minimise(p: &Params, d: &[Decision], class: &str, base: u64) -> (Params, Vec<Decision>, u64) {
    let mut best_p = p.clone();
    let mut best_d = d.to_vec();
    let mut cands = 0u64;
    // (1) smaller parameters
    let mut improved = true;
    while improved {
        improved = false;
        let mut tries: Vec<Params> = Vec::new();
        if best_p.threads > 1 {
            let mut q = best_p.clone();
            q.threads -= 1;
            tries.push(q);
        }
        if best_p.ops > 1 {
            let mut q = best_p.clone();
            q.ops -= 1;
            tries.push(q);
        }
        for q in tries {
            let mut found = None;
            for (k, n) in [(1u32, 150u64), (2, 150), (3, 150), (0, 400)] {
                let acc = Arc::new(Mutex::new(Acc::default()));
                explore(&q, k, splitmix(base ^ cands), n, &acc);
                cands += n;
                let a = std::mem::take(&mut *acc.lock().unwrap());
                if let Some((dd, v, _)) = a.failed {
                    if v.class() == class {
                        found = Some(dd);
                        break;
                    }
                }
            }
            if let Some(dd) = found {
                best_p = q;
                best_d = dd;
                improved = true;
                break;
            }
        }
    }
    // (2) the decision list under tolerant replay: drop chunks, keep what still fails the same way
    let mut chunk = (best_d.len() / 2).max(1);
    while chunk >= 1 && cands < 6000 {
        let mut i = 0;
        let mut any = false;
        while i < best_d.len() && cands < 6000 {
            let mut c = best_d.clone();
            let hi = (i + chunk).min(c.len());
            c.drain(i..hi);
            cands += 1;
            if let Some((actual, _, _)) = same_class(&best_p, &c, class) {
                // keep the shorter of the candidate and what was actually executed
                best_d = if actual.len() < c.len() { actual } else { c };
                any = true;
            } else {
                i += chunk;
            }
        }
        if chunk == 1 && !any {
            break;
        }
        if chunk > 1 {
            chunk /= 2;
        }
    }
    // (3) re-record what is actually executed so that the file replays exactly
    if let Some((actual, _, _)) = same_class(&best_p, &best_d, class) {
        if same_class(&best_p, &actual, class).is_some() {
            best_d = actual;
        }
    }
    (best_p, best_d, cands)
}

fn replay(path: &str) -> i32 {
    let Ok(s) = std::fs::read_to_string(path) else {
        eprintln!("cannot read {}", path);
        return 2;
    };
    let rf: TReplay = match serde_json::from_str(&s) {
        Ok(r) => r,
        Err(e) => {
            eprintln!("cannot parse {}: {}", path, e);
            return 2;
        }
    };
    let (v, _, lines, failed) = replay_decisions(&rf.params, &rf.decisions, true);
    for l in &lines {
        println!("{}", l);
    }
    if failed {
        println!("REPLAY-MISMATCH: a recorded decision was not runnable");
    }
    match v {
        Some(v) if v.class() == rf.class => {
            println!("REPRODUCED property={} class={} detail={}", rf.property, v.class(), v.detail);
            1
        }
        Some(v) => {
            println!("DIFFERENT violation: {} (file says {})", v.class(), rf.class);
            3
        }
        None => {
            println!("NOT REPRODUCED (file says {})", rf.class);
            0
        }
    }
}

fn sanitize(s: &str) -> String {
    s.chars().map(|c| if c.is_ascii_alphanumeric() || c == '.' || c == '_' { c } else { '-' }).collect::<String>().trim_matches('-').chars().take(80).collect()
}

fn check(prop: &str, tier: &str) -> i32 {
    let t0 = Instant::now();
    let base: u64 = std::env::var("VERIF_SEED").ok().and_then(|s| s.parse().ok()).unwrap_or(1);
    let (inst, per) = if tier == "thorough" { (100_000u64, 150u64) } else { (4_000u64, 80u64) };
    let inst: u64 = std::env::var("VERIF_TSIM_INSTANCES").ok().and_then(|s| s.parse().ok()).unwrap_or(inst);
    let nw: u64 = std::env::var("VERIF_WORKERS").ok().and_then(|s| s.parse().ok()).unwrap_or(16);
    println!("tsim check property={} tier={} VERIF_SEED={} scenario instances={} executions per instance={} workers={}", prop, tier, base, inst, per, nw);
    let exe = std::env::current_exe().unwrap();
    let work = format!("{}/work", verif_dir());
    std::fs::create_dir_all(&work).ok();
    std::fs::create_dir_all(format!("{}/replays", verif_dir())).ok();
    let chunk = (inst + nw - 1) / nw;
    let mut ch = Vec::new();
    for w in 0..nw {
        let from = w * chunk;
        if from >= inst {
            break;
        }
        let cnt = chunk.min(inst - from);
        let out = format!("{}/t{}-{}-{}.json", work, prop, std::process::id(), w);
        match Command::new(&exe).args(["worker", prop, &base.to_string(), &from.to_string(), &cnt.to_string(), &per.to_string(), &out]).stdin(Stdio::null()).spawn() {
            Ok(c) => ch.push((c, out, from, cnt)),
            Err(e) => {
                eprintln!("HARNESS-ERROR cannot spawn tsim worker: {}", e);
                return 2;
            }
        }
    }
    let mut m = TWorkerOut::default();
    let mut traces = BTreeSet::new();
    for (mut c, out, from, cnt) in ch {
        let st = c.wait().unwrap();
        if !st.success() {
            eprintln!("HARNESS-ERROR tsim worker for instances {}..{} died: {:?} (VERIF_SEED={})", from, from + cnt, st, base);
            return 2;
        }
        let Some(w): Option<TWorkerOut> = std::fs::read(&out).ok().and_then(|b| serde_json::from_slice(&b).ok()) else {
            eprintln!("HARNESS-ERROR tsim worker output unreadable");
            return 2;
        };
        std::fs::remove_file(&out).ok();
        m.instances += w.instances;
        m.executions += w.executions;
        m.steps += w.steps;
        traces.extend(w.traces);
        for (k, v) in w.pair_orders {
            let e = m.pair_orders.entry(k).or_insert([0, 0]);
            e[0] += v[0];
            e[1] += v[1];
        }
        for (k, v) in w.class_counts {
            *m.class_counts.entry(k).or_insert(0) += v;
        }
        m.found.extend(w.found);
        if m.samples.len() < 2 {
            m.samples.extend(w.samples);
        }
    }
    let known = load_known();
    m.found.sort_by_key(|f| f.0);
    let mut by_class: BTreeMap<String, (u64, Params, Vec<Decision>, Violation, Vec<String>)> = BTreeMap::new();
    for f in m.found.drain(..) {
        by_class.entry(f.3.class()).or_insert(f);
    }
    let mut n_viol = 0;
    let mut known_lines = Vec::new();
    let mut recs = Vec::new();
    for (class, (idx, p, d, v0, _)) in &by_class {
        // the recorded decisions must reproduce here
        let Some(_) = same_class(p, d, class) else {
            eprintln!("HARNESS-ERROR tsim violation {} of instance {} (VERIF_SEED={}) did not reproduce from its recorded schedule", class, idx, base);
            return 2;
        };
        let (mp, md, cands) = minimise(p, d, class, base);
        let (v, lines) = match same_class(&mp, &md, class) {
            Some((_, v, l)) => (v, l),
            None => (v0.clone(), vec![]),
        };
        let fname = format!("{}/replays/{}-tsim-{}-{}.json", verif_dir(), prop, sanitize(class), idx);
        let rf = TReplay {
            property: prop.to_string(),
            class: class.clone(),
            violation: v.clone(),
            found_by: json!({"VERIF_SEED": base, "instance": idx, "original_params": p, "original_decisions": d.len(), "minimised_decisions": md.len(), "context_switches": switches(&md), "minimiser_executions": cands}),
            params: mp.clone(),
            decisions: md.clone(),
            trace: lines,
        };
        std::fs::write(&fname, serde_json::to_string_pretty(&rf).unwrap()).unwrap();
        let st = Command::new(&exe).args(["replay", &fname]).stdout(Stdio::null()).status();
        if !matches!(st.as_ref().map(|s| s.code()), Ok(Some(1))) {
            eprintln!("HARNESS-ERROR replay of {} in a fresh process did not reproduce ({:?})", fname, st);
            return 2;
        }
        let count = m.class_counts.get(class).copied().unwrap_or(0);
        if let Some(k) = match_known(&known, &v) {
            known_lines.push(format!("KNOWN-FINDING: property={} {} [{}; {} scenario instances; replay={}]", prop, k.description, k.id, count, fname));
            recs.push(json!({"class": class, "known_finding": k.id, "instances": count, "replay": fname}));
        } else {
            n_viol += 1;
            println!("VIOLATION property={} replay={}", prop, fname);
            println!("  rule={} flags={:?} instances={} params={:?} schedule: {} decisions, {} context switches", v.rule, v.flags, count, mp, md.len(), switches(&md));
            println!("  {}", v.detail);
            recs.push(json!({"class": class, "instances": count, "replay": fname, "detail": v.detail}));
        }
    }
    for l in &known_lines {
        println!("{}", l);
    }
    let wall = t0.elapsed().as_secs_f64();
    let ev = json!({
        "engine": "tsim",
        "evaluations": m.executions,
        "distinct_nontrivial": traces.len(),
        "rule": "one evaluation = one execution of a scenario instance (real EventLoop + 1..3 scripted threads using calloop's thread-safe handles) under a seeded scheduler (random for 2 instances out of 5, PCT depth 1/2/3 for the others); every execution runs its history oracle; two executions are distinct if their (thread, trace point / operation) sequences differ (64-bit hash, salted per instance); an execution is non-trivial by construction (every scenario has at least one cross-thread operation)",
        "scenario_instances": m.instances,
        "executions_per_hour": (m.executions as f64 / wall * 3600.0) as u64,
        "history_events": m.steps,
        "critical_pair_orders": m.pair_orders,
        "samples": m.samples,
        "violation_classes": recs,
        "wall_s": wall,
        "violations": n_viol,
        "components": {
            "real": ["calloop (built with calloop_verif + calloop_verif_shuttle)", "polling", "async-task (its internal atomics are not instrumented)", "Linux epoll/eventfd"],
            "stub": ["std::sync::mpsc / Mutex / AtomicBool inside calloop (shuttle's sequentially consistent models)", "the thread scheduler (shuttle)", "blocking in epoll_wait (zero-timeout poll + yield, bounded patience)"]
        }
    });
    // the evidence file: for properties with a single-threaded half the dsim run (same
    // bin/check invocation, just before) has written it; the tsim part is merged in
    let evp = format!("{}/evidence/{}.json", verif_dir(), prop);
    std::fs::create_dir_all(format!("{}/evidence", verif_dir())).ok();
    let merged = if std::env::var("VERIF_MERGE_DSIM").is_ok() {
        match std::fs::read_to_string(&evp).ok().and_then(|s| serde_json::from_str::<serde_json::Value>(&s).ok()) {
            Some(mut d) => {
                let de = d["coverage"]["evaluations"].as_u64().unwrap_or(0);
                let dd = d["coverage"]["distinct_nontrivial"].as_u64().unwrap_or(0);
                d["coverage"]["dsim_evaluations"] = json!(de);
                d["coverage"]["dsim_distinct_nontrivial"] = json!(dd);
                d["coverage"]["evaluations"] = json!(de + m.executions);
                d["coverage"]["distinct_nontrivial"] = json!(dd + traces.len() as u64);
                let r = d["coverage"]["rule"].as_str().unwrap_or("").to_string();
                d["coverage"]["rule"] = json!(format!("two engines, counts added. dsim (single-threaded histories): {} || tsim (thread schedules): {}", r, ev["rule"].as_str().unwrap_or("")));
                d["coverage"]["tsim"] = ev.clone();
                d["wall_s"] = json!(d["wall_s"].as_f64().unwrap_or(0.0) + wall);
                d["violations"] = json!(d["violations"].as_i64().unwrap_or(0) + n_viol as i64);
                Some(d)
            }
            None => None,
        }
    } else {
        None
    };
    let doc = merged.unwrap_or_else(|| {
        json!({
            "property_id": prop,
            "tier": if tier == "thorough" { "thorough" } else { "quick" },
            "seed": base,
            "level": "exploration",
            "coverage": {
                "evaluations": m.executions,
                "distinct_nontrivial": traces.len(),
                "rule": ev["rule"],
                "samples": ev["samples"],
                "tsim": ev,
            },
            "assumptions": [
                "sampling of schedules, not enumeration",
                "sequentially consistent interleavings only (shuttle); interleavings inside async-task and polling are atomic steps",
                "std::sync::mpsc / Mutex / AtomicBool are shuttle's models of them"
            ],
            "wall_s": wall,
            "violations": n_viol
        })
    });
    std::fs::write(&evp, serde_json::to_string_pretty(&doc).unwrap()).unwrap();
    println!("{} (tsim): {} executions of {} scenario instances, {} distinct interleavings, {} unlisted violation classes, {} known findings, {:.1}s", prop, m.executions, m.instances, traces.len(), n_viol, known_lines.len(), wall);
    if n_viol > 0 {
        1
    } else {
        0
    }
}

fn switches(d: &[Decision]) -> usize {
    let mut n = 0;
    let mut last = None;
    for x in d {
        if let Decision::T(t) = x {
            if last.is_some() && last != Some(*t) {
                n += 1;
            }
            last = Some(*t);
        }
    }
    n
}

pub fn main() -> i32 {
    std::panic::set_hook(Box::new(|info| {
        let loc = info.location().map(|l| format!("{}:{}", l.file(), l.line())).unwrap_or_default();
        if std::env::var("VERIF_PANIC_TRACE").is_ok() {
            eprintln!("panic: {} at {}\n{}", info, loc, std::backtrace::Backtrace::force_capture());
        }
        crate::engine::LAST_PANIC_LOC.with(|l| *l.borrow_mut() = loc);
    }));
    let args: Vec<String> = std::env::args().collect();
    match args.get(1).map(|s| s.as_str()) {
        Some("check") if args.len() >= 4 => check(&args[2], &args[3]),
        Some("worker") => worker(&args[2..]),
        Some("replay") if args.len() >= 3 => replay(&args[2]),
        Some("fingerprints") => {
            let prop = &args[2];
            let from: u64 = args[3].parse().unwrap();
            let cnt: u64 = args[4].parse().unwrap();
            for idx in (from..from + cnt).rev() {
                let p = params_for(prop, 1, idx);
                let acc = Arc::new(Mutex::new(Acc::default()));
                explore(&p, sched_for(idx), splitmix(1 ^ idx.wrapping_mul(31)), 25, &acc);
                let a = acc.lock().unwrap();
                println!("{} {:016x} {}", idx, a.log, a.failed.as_ref().map(|f| f.1.class()).unwrap_or_default());
            }
            0
        }
        Some("selftest-determinism") => {
            let prop = args.get(2).cloned().unwrap_or_else(|| "C03".into());
            let n: u64 = args.get(3).and_then(|s| s.parse().ok()).unwrap_or(800);
            let exe = std::env::current_exe().unwrap();
            let mut results: Vec<BTreeMap<u64, String>> = Vec::new();
            for nw in [16u64, 3] {
                let per = (n + nw - 1) / nw;
                let mut ch = Vec::new();
                for w in 0..nw {
                    let from = w * per;
                    if from >= n {
                        break;
                    }
                    let cnt = per.min(n - from);
                    ch.push(Command::new(&exe).args(["fingerprints", &prop, &from.to_string(), &cnt.to_string()]).stdout(Stdio::piped()).spawn().unwrap());
                }
                let mut m = BTreeMap::new();
                for c in ch {
                    let o = c.wait_with_output().unwrap();
                    for l in String::from_utf8_lossy(&o.stdout).lines() {
                        if let Some((a, b)) = l.split_once(' ') {
                            m.insert(a.parse::<u64>().unwrap(), b.to_string());
                        }
                    }
                }
                results.push(m);
            }
            let diff = results[0].iter().filter(|(k, v)| results[1].get(k) != Some(v)).count();
            println!("tsim determinism: {} scenario instances of {} x 25 executions, executed twice (16 and 3 workers, reverse order): {} divergences", results[0].len(), prop, diff);
            if diff > 0 {
                1
            } else {
                0
            }
        }
        Some("one") => {
            let prop = &args[2];
            let idx: u64 = args[3].parse().unwrap();
            let n: u64 = args[4].parse().unwrap();
            let p = params_for(prop, 1, idx);
            println!("{:?}", p);
            let acc = Arc::new(Mutex::new(Acc::default()));
            let t0 = Instant::now();
            explore(&p, sched_for(idx), splitmix(1 ^ idx.wrapping_mul(31)), n, &acc);
            let a = acc.lock().unwrap();
            println!("{} executions, {} distinct traces, {:.2}s", a.executions, a.traces.len(), t0.elapsed().as_secs_f64());
            if let Some((d, v, lines)) = &a.failed {
                for l in lines {
                    println!("{}", l);
                }
                println!("VIOL {:?}\n{} decisions", v, d.len());
            }
            0
        }
        _ => {
            eprintln!("usage: tsim check <PROP> <tier> | replay <file> | one <PROP> <idx> <n>");
            2
        }
    }
}
