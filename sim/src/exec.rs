//! C10 harness (single-threaded half): an Executor with scripted futures, and a StreamSource
//! over a scripted stream. Wakes "from other threads" arrive as environment events.

use std::cell::{Cell, RefCell};
use std::collections::VecDeque;
use std::future::Future;
use std::pin::Pin;
use std::rc::Rc;
use std::task::{Context, Poll, Waker};

use calloop::futures::{executor, Scheduler};
use calloop::stream::StreamSource;

use crate::model::*;
use crate::ops::{exec_op, finish_insert, guarded, new_src, DropCtr};
use crate::program::*;
use crate::sim::*;
use crate::wrap::{Wrap, WrapShared};

pub struct TaskM {
    pub exec: Id,
    /// scheduled or woken since its last poll
    pub runnable: bool,
    pub polls: u32,
    pub pendings: u32,
    pub done: bool,
    pub delivered: bool,
    pub waker: Option<Waker>,
    pub script: VecDeque<Vec<Op>>,
    pub drop_ctr: Rc<Cell<u32>>,
    pub runnable_at_wait: bool,
    pub polls_at_wait: u32,
}

pub struct ExecK {
    pub sched: Option<Scheduler<u64>>,
    pub tasks: Vec<Id>,
}

struct SFut {
    task: Id,
    _g: DropCtr,
}

impl Future for SFut {
    type Output = u64;
    fn poll(self: Pin<&mut Self>, cx: &mut Context<'_>) -> Poll<u64> {
        on_poll(self.task, cx)
    }
}

pub fn insert_executor(sim: &Sim, id: Id, script: &Script) {
    let Some(h) = sim.st.borrow().handle.clone() else { return };
    if sim.st.borrow().srcs.contains_key(&id) {
        return;
    }
    let Ok((exec, sched)) = executor::<u64>() else { return };
    let sh = WrapShared::new(id);
    let cbd = Rc::new(Cell::new(0));
    let guard = DropCtr(cbd.clone());
    let src = new_src(id, script, K::Exec(ExecK { sched: Some(sched), tasks: vec![] }), sh.clone(), cbd);
    let r = guarded(sim, "insert_source", || {
        h.insert_source(Wrap::new(exec, sh), move |v, _, tag: &mut Tag| {
            let _g = &guard;
            on_result(id, v, tag);
        })
        .map_err(|e| e.error.to_string())
    });
    if let Some(r) = r {
        finish_insert(sim, id, src, r, false);
    }
}

pub fn schedule(sim: &Sim, exec: Id, task: Id, pendings: u32, script: &[Vec<Op>]) {
    let (sched, destroyed) = {
        let st = sim.st.borrow();
        if st.tasks.contains_key(&task) {
            return;
        }
        let Some(s) = st.srcs.get(&exec) else { return };
        let K::Exec(e) = &s.k else { return };
        let Some(sc) = e.sched.clone() else { return };
        (sc, s.sh.dropped.get() > 0)
    };
    let ctr = Rc::new(Cell::new(0));
    let fut = SFut { task, _g: DropCtr(ctr.clone()) };
    {
        let mut st = sim.st.borrow_mut();
        st.tasks.insert(
            task,
            TaskM { exec, runnable: false, polls: 0, pendings, done: false, delivered: false, waker: None, script: script.iter().cloned().collect(), drop_ctr: ctr, runnable_at_wait: false, polls_at_wait: 0 },
        );
    }
    let Some(r) = guarded(sim, "schedule", || sched.schedule(fut)) else { return };
    let mut st = sim.st.borrow_mut();
    match r {
        Ok(()) => {
            if destroyed {
                drop(st);
                sim.violate("exec.schedule_after_destroy", vec![], format!("schedule() on executor {} succeeded although the executor was dropped", exec));
                return;
            }
            st.tasks.get_mut(&task).unwrap().runnable = true;
            if let Some(K::Exec(e)) = st.srcs.get_mut(&exec).map(|s| &mut s.k) {
                e.tasks.push(task);
            }
            drop(st);
            sim.rule_ok(&["C10"], 100);
        }
        Err(_) => {
            // the future was handed back dropped
            st.tasks.get_mut(&task).unwrap().done = true;
            st.tasks.get_mut(&task).unwrap().delivered = true;
            drop(st);
            if !destroyed {
                sim.violate("exec.schedule_failed", vec![], format!("schedule() on live executor {} returned ExecutorDestroyed", exec));
                return;
            }
            sim.probe("schedule_after_destroy_rejected");
            sim.rule_ok(&["C10"], 101);
        }
    }
}

struct TFut {
    task: Id,
    tf: calloop::timer::TimeoutFuture,
    deadline: u64,
    _g: DropCtr,
}

impl Future for TFut {
    type Output = u64;
    fn poll(mut self: Pin<&mut Self>, cx: &mut Context<'_>) -> Poll<u64> {
        let sim = cur();
        if !note_poll(&sim, self.task) {
            return Poll::Pending;
        }
        let task = self.task;
        let deadline = self.deadline;
        match Pin::new(&mut self.tf).poll(cx) {
            Poll::Ready(()) => {
                if sim.now_ns() < deadline {
                    sim.violate("exec.timeout_early", vec![], format!("the TimeoutFuture of task {} resolved at t={} ns, before its deadline {}", task, sim.now_ns(), deadline));
                }
                note_done(&sim, task);
                Poll::Ready(task as u64)
            }
            Poll::Pending => {
                if sim.now_ns() >= deadline {
                    sim.violate("exec.timeout_late", vec![], format!("the TimeoutFuture of task {} is still pending at t={} ns, its deadline {} has passed", task, sim.now_ns(), deadline));
                }
                Poll::Pending
            }
        }
    }
}

/// A task that awaits a TimeoutFuture. Creating the future inserts a hidden Timer source in
/// the loop; the model follows it (slot, wait timeout, wake-up of the task).
pub fn schedule_timeout(sim: &Sim, exec: Id, task: Id, dl: Deadline) {
    let (sched, destroyed, handle) = {
        let st = sim.st.borrow();
        if st.tasks.contains_key(&task) || st.hidden_unknown {
            return;
        }
        let Some(s) = st.srcs.get(&exec) else { return };
        let K::Exec(e) = &s.k else { return };
        let Some(sc) = e.sched.clone() else { return };
        let Some(h) = st.handle.clone() else { return };
        (sc, s.sh.dropped.get() > 0, h)
    };
    if destroyed || sim.hk.borrow().in_dispatch {
        return;
    }
    let now = sim.now_ns();
    let (deadline, tf) = match dl {
        Deadline::At(t) => (t, calloop::timer::TimeoutFuture::from_deadline(&handle, sim.instant_at(t))),
        Deadline::In(d) if d != u64::MAX => (now.saturating_add(d), calloop::timer::TimeoutFuture::from_duration(&handle, std::time::Duration::from_nanos(d))),
        _ => (now, calloop::timer::TimeoutFuture::from_duration(&handle, std::time::Duration::ZERO)),
    };
    drop(handle);
    let ctr = Rc::new(Cell::new(0));
    let fut = TFut { task, tf, deadline, _g: DropCtr(ctr.clone()) };
    register_task(sim, exec, task, ctr);
    sim.st.borrow_mut().hidden_timers.push((deadline, false, task));
    let Some(r) = guarded(sim, "schedule", || sched.schedule(fut)) else { return };
    if r.is_err() {
        sim.violate("exec.schedule_failed", vec![], format!("schedule() on live executor {} returned ExecutorDestroyed", exec));
    }
    sim.probe("timeout_future");
}

/// after a dispatch: hidden timers whose deadline had passed when the loop polled have fired
/// (their slot is free again, their task has been woken)
pub fn hidden_after_dispatch(sim: &Sim, ok: bool, polled_at: u64) {
    let mut st = sim.st.borrow_mut();
    let due: Vec<usize> = st.hidden_timers.iter().enumerate().filter(|(_, h)| !h.1 && h.0 <= polled_at).map(|(i, _)| i).collect();
    if due.is_empty() {
        return;
    }
    if !ok {
        // the dispatch was interrupted: they may or may not have fired
        st.hidden_unknown = true;
        return;
    }
    for i in due {
        st.hidden_timers[i].1 = true;
        let task = st.hidden_timers[i].2;
        if let Some(t) = st.tasks.get_mut(&task) {
            if !t.done && t.polls > 0 {
                t.runnable = true;
            }
        }
    }
}

pub fn wake(sim: &Sim, task: Id) {
    let w = {
        let mut st = sim.st.borrow_mut();
        let Some(t) = st.tasks.get_mut(&task) else { return };
        if t.done {
            return;
        }
        let w = t.waker.clone();
        if w.is_some() {
            t.runnable = true;
        }
        w
    };
    if let Some(w) = w {
        guarded(sim, "wake", || w.wake_by_ref());
    }
}

/// Book-keeping shared by every scripted future: a poll of `task` happens now.
pub fn note_poll(sim: &Sim, task: Id) -> bool {
    if sim.is_dead() {
        return false;
    }
    sim.trace(|| format!("   poll task {}", task));
    let mut st = sim.st.borrow_mut();
    let Some(t) = st.tasks.get_mut(&task) else { return false };
    let exec = t.exec;
    let was_done = t.done;
    t.polls += 1;
    t.runnable = false;
    let in_proc = st.srcs.get(&exec).map(|s| s.in_processing > 0 || s.indeterminate).unwrap_or(false);
    drop(st);
    if was_done {
        sim.violate("exec.poll_after_complete", vec![], format!("task {} was polled after it completed", task));
        return false;
    }
    if !in_proc {
        sim.violate("exec.poll_outside_dispatch", vec![], format!("task {} was polled outside of its executor's event processing", task));
        return false;
    }
    sim.rule_ok(&["C10"], 102);
    true
}

pub fn note_done(sim: &Sim, task: Id) {
    if let Some(t) = sim.st.borrow_mut().tasks.get_mut(&task) {
        t.done = true;
        t.waker = None;
    }
}

pub fn register_task(sim: &Sim, exec: Id, task: Id, ctr: Rc<Cell<u32>>) {
    let mut st = sim.st.borrow_mut();
    st.tasks.insert(
        task,
        TaskM { exec, runnable: true, polls: 0, pendings: 0, done: false, delivered: false, waker: None, script: VecDeque::new(), drop_ctr: ctr, runnable_at_wait: false, polls_at_wait: 0 },
    );
    if let Some(K::Exec(e)) = st.srcs.get_mut(&exec).map(|s| &mut s.k) {
        e.tasks.push(task);
    }
}

fn on_poll(task: Id, cx: &mut Context<'_>) -> Poll<u64> {
    let sim = cur();
    if sim.is_dead() {
        return Poll::Pending;
    }
    sim.trace(|| format!("   poll task {}", task));
    let ops = {
        let mut st = sim.st.borrow_mut();
        let Some(t) = st.tasks.get_mut(&task) else { return Poll::Pending };
        let exec = t.exec;
        let was_done = t.done;
        t.polls += 1;
        t.runnable = false;
        let ops = t.script.pop_front();
        let in_proc = st.srcs.get(&exec).map(|s| s.in_processing > 0 || s.indeterminate).unwrap_or(false);
        drop(st);
        if was_done {
            sim.violate("exec.poll_after_complete", vec![], format!("task {} was polled after it completed", task));
            return Poll::Pending;
        }
        if !in_proc {
            sim.violate("exec.poll_outside_dispatch", vec![], format!("task {} was polled outside of its executor's event processing", task));
            return Poll::Pending;
        }
        sim.rule_ok(&["C10"], 102);
        ops
    };
    if let Some(ops) = ops {
        for op in &ops {
            exec_op(&sim, op, true);
            if sim.is_dead() {
                break;
            }
        }
    }
    let mut st = sim.st.borrow_mut();
    let Some(t) = st.tasks.get_mut(&task) else { return Poll::Pending };
    if t.polls <= t.pendings {
        t.waker = Some(cx.waker().clone());
        Poll::Pending
    } else {
        t.done = true;
        t.waker = None;
        Poll::Ready(task as u64)
    }
}

fn on_result(id: Id, v: u64, tag: &mut Tag) {
    let sim = cur();
    sim.trace(|| format!("   cb executor {} result of task {}", id, v));
    if !crate::cb::common(&sim, id, tag) {
        return;
    }
    {
        let mut st = sim.st.borrow_mut();
        let indet = st.srcs.get(&id).map(|s| s.indeterminate).unwrap_or(true);
        if !indet {
            let mut viol = None;
            match st.tasks.get_mut(&(v as Id)) {
                Some(t) if t.exec == id && t.done && !t.delivered => t.delivered = true,
                Some(t) if t.delivered => viol = Some(format!("executor {} delivered the result of task {} twice", id, v)),
                _ => viol = Some(format!("executor {} delivered a result ({}) no completed task of its own produced", id, v)),
            }
            drop(st);
            if let Some(d) = viol {
                sim.violate("exec.result_wrong", vec![], d);
                return;
            }
            sim.rule_ok(&["C10"], 103);
        }
    }
    crate::cb::run_script(&sim, id);
}

/// at the end of the wait: remember which tasks are owed a poll
pub fn at_wait(st: &mut St) {
    for t in st.tasks.values_mut() {
        t.runnable_at_wait = t.runnable && !t.done;
        t.polls_at_wait = t.polls;
    }
}

pub fn exec_has_runnable(st: &St, id: Id) -> bool {
    st.tasks.values().any(|t| t.exec == id && t.runnable && !t.done)
}

pub fn after_dispatch(sim: &Sim, ok: bool) {
    if !ok {
        return;
    }
    let st = sim.st.borrow();
    let mut viol: Option<(&'static str, String)> = None;
    for (id, s) in st.srcs.iter() {
        let K::Exec(_) = &s.k else { continue };
        if s.indeterminate || s.excused || !(s.inserted && s.enabled) {
            continue;
        }
        let owed: Vec<&TaskM> = st.tasks.values().filter(|t| t.exec == *id && t.runnable_at_wait).collect();
        let polled = owed.iter().filter(|t| t.polls > t.polls_at_wait).count();
        if !st.must.contains_key(id) {
            continue;
        }
        if polled < owed.len().min(1024) {
            viol = Some(("exec.lost_wake", format!("executor {}: {} tasks were scheduled or woken before the wait ended, only {} were polled by this dispatch", id, owed.len(), polled)));
            break;
        }
        if let Some((tid, _)) = st.tasks.iter().find(|(_, t)| t.exec == *id && t.done && !t.delivered) {
            viol = Some(("exec.result_not_delivered", format!("task {} of executor {} completed but its output was not handed to the callback in the same dispatch", tid, id)));
            break;
        }
    }
    drop(st);
    if let Some((r, d)) = viol {
        sim.violate(r, vec![], d);
    }
}

/// every future of a dropped executor has been dropped; no future is dropped twice
pub fn step_invariants(sim: &Sim, teardown: bool) {
    let st = sim.st.borrow();
    let mut viol: Option<(&'static str, String)> = None;
    for (tid, t) in st.tasks.iter() {
        let c = t.drop_ctr.get();
        if c > 1 {
            viol = Some(("exec.future_dropped_twice", format!("the future of task {} was dropped {} times", tid, c)));
            break;
        }
        let exec_gone = st.srcs.get(&t.exec).map(|s| s.sh.dropped.get() > 0).unwrap_or(true);
        if (exec_gone || teardown) && c != 1 {
            viol = Some(("exec.future_leaked", format!("executor {} was dropped but the future of task {} was not", t.exec, tid)));
            break;
        }
        if t.delivered && c != 1 && st.srcs.get(&t.exec).map(|s| !s.indeterminate).unwrap_or(false) {
            viol = Some(("exec.future_leaked", format!("task {} completed and was delivered but its future is still alive", tid)));
            break;
        }
    }
    drop(st);
    if let Some((r, d)) = viol {
        sim.violate(r, vec![if teardown { "teardown".into() } else { "running".into() }], d);
    }
}

// ------------------------------------------------------------------------------------------
// stream
// ------------------------------------------------------------------------------------------

#[derive(Default)]
pub struct StreamShared {
    pub queue: VecDeque<u64>,
    pub ended: bool,
    pub waker: Option<Waker>,
    pub polls: u32,
    pub finished: bool,
}

pub struct StreamK {
    pub shared: Rc<RefCell<StreamShared>>,
    pub expected: VecDeque<u64>,
    pub next_val: u64,
    pub ended: bool,
    pub none_delivered: bool,
    /// the ping of StreamSource::new, or a wake since the last poll, is outstanding
    pub wake_pending: bool,
    pub items_in_pe: u32,
    pub polls_at_pe: u32,
}

struct SStream {
    sh: Rc<RefCell<StreamShared>>,
    _g: DropCtr,
}

impl futures_core::Stream for SStream {
    type Item = u64;
    fn poll_next(self: Pin<&mut Self>, cx: &mut Context<'_>) -> Poll<Option<u64>> {
        let mut s = self.sh.borrow_mut();
        s.polls += 1;
        if let Some(v) = s.queue.pop_front() {
            return Poll::Ready(Some(v));
        }
        if s.ended {
            s.finished = true;
            return Poll::Ready(None);
        }
        s.waker = Some(cx.waker().clone());
        Poll::Pending
    }
}

pub fn insert_stream(sim: &Sim, id: Id, script: &Script) {
    let Some(h) = sim.st.borrow().handle.clone() else { return };
    if sim.st.borrow().srcs.contains_key(&id) {
        return;
    }
    let shared = Rc::new(RefCell::new(StreamShared::default()));
    let sctr = Rc::new(Cell::new(0));
    let stream = SStream { sh: shared.clone(), _g: DropCtr(sctr) };
    let Ok(source) = StreamSource::new(stream) else { return };
    let sh = WrapShared::new(id);
    let cbd = Rc::new(Cell::new(0));
    let guard = DropCtr(cbd.clone());
    let src = new_src(
        id,
        script,
        K::Stream(StreamK { shared, expected: VecDeque::new(), next_val: 0, ended: false, none_delivered: false, wake_pending: true, items_in_pe: 0, polls_at_pe: 0 }),
        sh.clone(),
        cbd,
    );
    let r = guarded(sim, "insert_source", || {
        h.insert_source(Wrap::new(source, sh), move |ev, _, tag: &mut Tag| {
            let _g = &guard;
            on_item(id, ev, tag);
        })
        .map_err(|e| e.error.to_string())
    });
    if let Some(r) = r {
        finish_insert(sim, id, src, r, false);
    }
}

pub fn stream_push(sim: &Sim, id: Id, end: bool) {
    let w = {
        let mut st = sim.st.borrow_mut();
        let Some(s) = st.srcs.get_mut(&id) else { return };
        let K::Stream(k) = &mut s.k else { return };
        if k.ended {
            return;
        }
        let mut sh = k.shared.borrow_mut();
        if end {
            sh.ended = true;
            k.ended = true;
        } else {
            let v = ((id as u64) << 32) | k.next_val;
            k.next_val += 1;
            sh.queue.push_back(v);
            k.expected.push_back(v);
        }
        let w = sh.waker.take();
        if w.is_some() {
            k.wake_pending = true;
        }
        w
    };
    if let Some(w) = w {
        w.wake();
    }
}

fn on_item(id: Id, ev: Option<u64>, tag: &mut Tag) {
    let sim = cur();
    sim.trace(|| format!("   cb stream {} {:?}", id, ev));
    if !crate::cb::common(&sim, id, tag) {
        return;
    }
    {
        let mut st = sim.st.borrow_mut();
        let s = st.srcs.get_mut(&id).unwrap();
        if !s.indeterminate {
            if let K::Stream(k) = &mut s.k {
                let mut viol: Option<(&'static str, String)> = None;
                if k.none_delivered {
                    viol = Some(("stream.after_end", format!("stream {} delivered {:?} after its final None", id, ev)));
                } else {
                    match ev {
                        Some(v) => match k.expected.pop_front() {
                            Some(x) if x == v => {}
                            other => viol = Some(("stream.wrong_item", format!("stream {} delivered {:#x}, the model expected {:?}", id, v, other))),
                        },
                        None => {
                            if !k.ended || !k.expected.is_empty() {
                                viol = Some(("stream.none_early", format!("stream {} delivered None with {} items outstanding (ended={})", id, k.expected.len(), k.ended)));
                            }
                            k.none_delivered = true;
                        }
                    }
                }
                drop(st);
                if let Some((r, d)) = viol {
                    sim.violate(r, vec![], d);
                    return;
                }
                sim.rule_ok(&["C10"], 110);
            }
        }
    }
    crate::cb::run_script(&sim, id);
}
