//! C01 harness for sub-token routing: a composite EventSource written the way the calloop
//! book documents - n children, each a `TransientSource` over a ping, a level-triggered socket
//! or a timer, one sub-token each, every event forwarded to all children, post actions or-ed.

use std::cell::Cell;
use std::os::fd::{AsRawFd, OwnedFd};
use std::rc::Rc;

use calloop::generic::Generic;
use calloop::ping::{make_ping, Ping, PingSource};
use calloop::timer::{TimeoutAction, Timer};
use calloop::transient::TransientSource;
use calloop::{EventSource, Interest, Mode, Poll, PostAction, Readiness, Token, TokenFactory};

use crate::model::*;
use crate::ops::{finish_insert, guarded, new_src, DropCtr};
use crate::os;
use crate::program::*;
use crate::sim::*;
use crate::wrap::{Wrap, WrapShared};

enum Ch {
    Ping(TransientSource<PingSource>),
    Sock(TransientSource<Generic<SharedFd>>),
    Timer(TransientSource<MaybeTimer>),
}

/// A user-written sub-source: a timer that registers nothing at all while it is parked.
pub struct MaybeTimer {
    t: Timer,
    armed: bool,
}

impl EventSource for MaybeTimer {
    type Event = std::time::Instant;
    type Metadata = ();
    type Ret = TimeoutAction;
    type Error = std::io::Error;

    fn process_events<F>(&mut self, readiness: Readiness, token: Token, callback: F) -> Result<PostAction, std::io::Error>
    where
        F: FnMut(std::time::Instant, &mut ()) -> TimeoutAction,
    {
        if self.armed {
            self.t.process_events(readiness, token, callback)
        } else {
            Ok(PostAction::Continue)
        }
    }

    fn register(&mut self, poll: &mut Poll, tf: &mut TokenFactory) -> calloop::Result<()> {
        if self.armed {
            self.t.register(poll, tf)
        } else {
            Ok(())
        }
    }

    fn reregister(&mut self, poll: &mut Poll, tf: &mut TokenFactory) -> calloop::Result<()> {
        if self.armed {
            self.t.reregister(poll, tf)
        } else {
            Ok(())
        }
    }

    fn unregister(&mut self, poll: &mut Poll) -> calloop::Result<()> {
        if self.armed {
            self.t.unregister(poll)
        } else {
            Ok(())
        }
    }
}

pub struct CompSrc {
    children: Vec<Ch>,
    sh: Rc<WrapShared>,
}

type BoxErr = Box<dyn std::error::Error + Sync + Send>;

impl EventSource for CompSrc {
    /// index of the child whose callback runs
    type Event = usize;
    type Metadata = ();
    type Ret = ();
    type Error = BoxErr;

    fn process_events<F>(&mut self, readiness: Readiness, token: Token, mut callback: F) -> Result<PostAction, BoxErr>
    where
        F: FnMut(usize, &mut ()),
    {
        let mut ret: Option<PostAction> = None;
        for (i, c) in self.children.iter_mut().enumerate() {
            let a = match c {
                Ch::Ping(p) => p.process_events(readiness, token, |(), _| callback(i, &mut ())).map_err(|e| Box::new(e) as BoxErr)?,
                Ch::Sock(g) => g
                    .process_events(readiness, token, |_, fd| {
                        callback(i, &mut ());
                        // consume what is there (level triggered)
                        os::read(fd.0.as_raw_fd(), 65536);
                        // the child may ask for its own re-registration
                        Ok(self.sh.child_ret.take().unwrap_or(PostAction::Continue))
                    })
                    .map_err(|e: std::io::Error| Box::new(e) as BoxErr)?,
                Ch::Timer(t) => t
                    .process_events(readiness, token, |_, _| {
                        callback(i, &mut ());
                        TimeoutAction::Drop
                    })
                    .map_err(|e| Box::new(e) as BoxErr)?,
            };
            ret = Some(match ret {
                None => a,
                Some(r) => r | a,
            });
        }
        Ok(ret.unwrap_or(PostAction::Continue))
    }

    fn register(&mut self, poll: &mut Poll, tf: &mut TokenFactory) -> calloop::Result<()> {
        for c in self.children.iter_mut() {
            match c {
                Ch::Ping(p) => p.register(poll, tf)?,
                Ch::Sock(g) => g.register(poll, tf)?,
                Ch::Timer(t) => t.register(poll, tf)?,
            }
        }
        Ok(())
    }

    fn reregister(&mut self, poll: &mut Poll, tf: &mut TokenFactory) -> calloop::Result<()> {
        if let Some((i, ns)) = self.sh.arm_child.take() {
            if let Some(Ch::Timer(t)) = self.children.get_mut(i) {
                t.map(|m| {
                    m.armed = true;
                    m.t.set_duration(std::time::Duration::from_nanos(ns))
                });
            }
        }
        for c in self.children.iter_mut() {
            match c {
                Ch::Ping(p) => p.reregister(poll, tf)?,
                Ch::Sock(g) => g.reregister(poll, tf)?,
                Ch::Timer(t) => t.reregister(poll, tf)?,
            }
        }
        Ok(())
    }

    fn unregister(&mut self, poll: &mut Poll) -> calloop::Result<()> {
        for c in self.children.iter_mut() {
            match c {
                Ch::Ping(p) => p.unregister(poll)?,
                Ch::Sock(g) => g.unregister(poll)?,
                Ch::Timer(t) => t.unregister(poll)?,
            }
        }
        Ok(())
    }
}

pub enum ChildM {
    Ping { handle: Option<Ping>, pending: bool, closed: bool },
    Sock { own: SharedFd, peer: Option<OwnedFd>, written: bool },
    Timer { deadline: Option<u64>, fired: bool, user_parked: bool },
}

pub struct CompK {
    pub children: Vec<ChildM>,
    /// a child went away (closed ping, fired timer) at some point: sub-ids may have shifted
    pub child_retired: bool,
    pub retired_this_dispatch: bool,
}

pub fn insert_composite(sim: &Sim, id: Id, specs: &[ChildSpec], script: &Script) {
    let Some(h) = sim.st.borrow().handle.clone() else { return };
    if sim.st.borrow().srcs.contains_key(&id) || specs.is_empty() {
        return;
    }
    let mut children = Vec::new();
    let mut models = Vec::new();
    for s in specs.iter().take(4) {
        match s {
            ChildSpec::Ping => {
                let Ok((p, src)) = make_ping() else { return };
                children.push(Ch::Ping(src.into()));
                models.push(ChildM::Ping { handle: Some(p), pending: false, closed: false });
            }
            ChildSpec::ParkedTimer => {
                children.push(Ch::Timer(MaybeTimer { t: Timer::from_duration(std::time::Duration::MAX), armed: true }.into()));
                models.push(ChildM::Timer { deadline: None, fired: false, user_parked: false });
            }
            ChildSpec::MaybeTimer => {
                children.push(Ch::Timer(MaybeTimer { t: Timer::from_duration(std::time::Duration::MAX), armed: false }.into()));
                models.push(ChildM::Timer { deadline: None, fired: false, user_parked: true });
            }
            ChildSpec::Sock | ChildSpec::SameFd | ChildSpec::Eager => {
                let (a, b) = os::socketpair();
                let own = SharedFd(Rc::new(a));
                children.push(Ch::Sock(Generic::new(own.clone(), Interest::READ, Mode::Level).into()));
                models.push(ChildM::Sock { own, peer: Some(b), written: false });
            }
            ChildSpec::Timer(dl) => {
                let (t, d) = match dl {
                    Deadline::Immediate => (Timer::immediate(), Some(sim.now_ns())),
                    Deadline::In(u64::MAX) => (Timer::from_duration(std::time::Duration::from_secs(3600)), sim.now_ns().checked_add(3_600_000_000_000)),
                    Deadline::In(d) => (Timer::from_duration(std::time::Duration::from_nanos(*d)), sim.now_ns().checked_add(*d)),
                    Deadline::At(t) => (Timer::from_deadline(sim.instant_at(*t)), Some(*t)),
                };
                children.push(Ch::Timer(MaybeTimer { t, armed: true }.into()));
                models.push(ChildM::Timer { deadline: d, fired: false, user_parked: false });
            }
        }
    }
    let sh = WrapShared::new(id);
    let cbd = Rc::new(Cell::new(0));
    let guard = DropCtr(cbd.clone());
    let src = new_src(id, script, K::Comp(CompK { children: models, child_retired: false, retired_this_dispatch: false }), sh.clone(), cbd);
    let r = guarded(sim, "insert_source", || {
        h.insert_source(Wrap::new(CompSrc { children, sh: sh.clone() }, sh), move |child: usize, _, tag: &mut Tag| {
            let _g = &guard;
            on_child(id, child, tag);
        })
        .map_err(|e| e.error.to_string())
    });
    if let Some(r) = r {
        finish_insert(sim, id, src, r, false);
    }
}

fn on_child(id: Id, child: usize, tag: &mut Tag) {
    let sim = cur();
    sim.trace(|| format!("   cb composite {} child {}", id, child));
    if !crate::cb::common(&sim, id, tag) {
        return;
    }
    let now = sim.now_ns();
    {
        let mut st = sim.st.borrow_mut();
        let s = st.srcs.get_mut(&id).unwrap();
        if !s.indeterminate {
            if let K::Comp(k) = &mut s.k {
                let retired = k.child_retired;
                let retired_now = k.retired_this_dispatch;
                let n = k.children.len();
                let mut timer_deadline: Option<u64> = None;
                let ok = match k.children.get_mut(child) {
                    Some(ChildM::Ping { pending, .. }) => std::mem::replace(pending, false),
                    Some(ChildM::Sock { own, written, .. }) => {
                        let r = os::poll_revents(own.0.as_raw_fd()) & (os::PIN | os::PHUP) != 0;
                        *written = false;
                        r
                    }
                    Some(ChildM::Timer { deadline, fired, .. }) => {
                        let ok = !*fired && deadline.map(|d| d <= now).unwrap_or(false);
                        *fired = true;
                        timer_deadline = *deadline;
                        ok
                    }
                    None => false,
                };
                if matches!(k.children.get(child), Some(ChildM::Timer { .. })) {
                    // the timer child returns Drop: it retires, the wrapper re-registers
                    k.child_retired = true;
                    k.retired_this_dispatch = true;
                }
                drop(st);
                if !ok {
                    sim.violate(
                        "composite.event_for_wrong_child",
                        {
                            let mut f = vec![format!("children={}", n)];
                            if retired {
                                f.push("sibling_retired".into());
                            }
                            f.push(if retired_now { "retired_in_this_dispatch".into() } else if retired { "retired_in_an_earlier_dispatch".into() } else { "no_sibling_retired".into() });
                            f
                        },
                        format!("composite source {}: the callback of child {} ran although that child has no pending cause of its own (an event of another sub-source was routed to it)", id, child),
                    );
                    return;
                }
                sim.rule_ok(&["C01"], 15);
                // timers due in the same dispatch fire in deadline order, whoever holds them
                if let Some(d) = timer_deadline {
                    let mut st = sim.st.borrow_mut();
                    let prev = st.timer_fire_deadlines.last().copied();
                    st.timer_fire_deadlines.push(d);
                    drop(st);
                    if let Some(p) = prev {
                        if p > d {
                            sim.violate("timer.order", vec!["composite_child".into()], format!("the timer child of composite source {} (deadline {}) fired after a timer with deadline {} in the same dispatch", id, d, p));
                            return;
                        }
                    }
                    sim.rule_ok(&["C05"], 42);
                }
            }
        }
    }
    let is_sock = matches!(sim.st.borrow().srcs.get(&id).map(|s| &s.k), Some(K::Comp(k)) if matches!(k.children.get(child), Some(ChildM::Sock { .. })));
    let ret = crate::cb::run_script(&sim, id);
    if is_sock && ret == Ret::Reregister {
        if let Some(s) = sim.st.borrow().srcs.get(&id) {
            s.sh.child_ret.set(Some(PostAction::Reregister));
        }
        sim.probe("composite_child_asked_reregister");
    }
}

pub fn has_cause(k: &CompK, now: u64) -> bool {
    k.children.iter().any(|c| match c {
        ChildM::Ping { pending, closed, handle } => *pending || (*closed && handle.is_none() && false),
        ChildM::Sock { own, .. } => os::poll_revents(own.0.as_raw_fd()) & (os::PIN | os::PHUP) != 0,
        ChildM::Timer { deadline, fired, .. } => !*fired && deadline.map(|d| d <= now).unwrap_or(false),
    })
}

pub fn child_op(sim: &Sim, op: &Op) {
    if let Op::ArmChildTimer(id, n, ns) = op {
        // u32::MAX: whichever child is a parked timer
        let n = &if *n == u32::MAX {
            match sim.st.borrow().srcs.get(id).map(|s| &s.k) {
                Some(K::Comp(k)) => k.children.iter().position(|c| matches!(c, ChildM::Timer { deadline: None, fired: false, .. })).unwrap_or(0) as u32,
                _ => 0,
            }
        } else {
            *n
        };
        let sh = {
            let st = sim.st.borrow();
            let Some(s) = st.srcs.get(id) else { return };
            let K::Comp(k) = &s.k else { return };
            if !(s.inserted && s.enabled) || s.indeterminate || s.in_processing > 0 {
                return;
            }
            // only a timer that was parked from the start and never armed
            match k.children.get(*n as usize) {
                Some(ChildM::Timer { deadline: None, fired: false, user_parked }) => {
                    if *user_parked && sim.hk.borrow().in_dispatch {
                        return;
                    }
                }
                _ => return,
            }
            s.sh.clone()
        };
        sh.arm_child.set(Some((*n as usize, *ns)));
        let in_cb = sim.hk.borrow().in_dispatch;
        crate::ops::exec_op(sim, &Op::Update(*id), in_cb);
        if sh.arm_child.take().is_none() {
            // the re-registration took place: the child is armed from now on
            let now = sim.now_ns();
            let mut st = sim.st.borrow_mut();
            if let Some(K::Comp(k)) = st.srcs.get_mut(id).map(|s| &mut s.k) {
                if let Some(ChildM::Timer { deadline, .. }) = k.children.get_mut(*n as usize) {
                    *deadline = now.checked_add(*ns);
                }
            }
            drop(st);
            sim.probe("composite_parked_timer_armed");
        }
        return;
    }
    let mut st = sim.st.borrow_mut();
    match op {
        Op::PingChild(id, n) => {
            let Some(K::Comp(k)) = st.srcs.get_mut(id).map(|s| &mut s.k) else { return };
            if let Some(ChildM::Ping { handle: Some(h), pending, .. }) = k.children.get_mut(*n as usize) {
                *pending = true;
                let h = h.clone();
                drop(st);
                h.ping();
            }
        }
        Op::DropChildPing(id, n) => {
            let Some(K::Comp(k)) = st.srcs.get_mut(id).map(|s| &mut s.k) else { return };
            let mut dropped = None;
            if let Some(ChildM::Ping { handle, closed, .. }) = k.children.get_mut(*n as usize) {
                dropped = handle.take();
                if dropped.is_some() {
                    *closed = true;
                    k.child_retired = true;
                    k.retired_this_dispatch = true;
                }
            }
            drop(st);
            drop(dropped);
        }
        Op::PeerWriteChild(id, n, bytes) => {
            let Some(K::Comp(k)) = st.srcs.get_mut(id).map(|s| &mut s.k) else { return };
            if let Some(ChildM::Sock { peer: Some(p), written, .. }) = k.children.get_mut(*n as usize) {
                let data = vec![1u8; (*bytes).max(1) as usize];
                os::write(p.as_raw_fd(), &data);
                *written = true;
            }
        }
        _ => {}
    }
}

pub fn dispatch_start(st: &mut St) {
    for s in st.srcs.values_mut() {
        if let K::Comp(k) = &mut s.k {
            k.retired_this_dispatch = false;
        }
    }
}
