//! The only source of randomness: splitmix64 / xorshift64*, seeded from VERIF_SEED.

#[derive(Clone, Debug)]
pub struct Rng(pub u64);

pub fn splitmix(x: u64) -> u64 {
    let mut z = x.wrapping_add(0x9E37_79B9_7F4A_7C15);
    z = (z ^ (z >> 30)).wrapping_mul(0xBF58_476D_1CE4_E5B9);
    z = (z ^ (z >> 27)).wrapping_mul(0x94D0_49BB_1331_11EB);
    z ^ (z >> 31)
}

impl Rng {
    pub fn new(seed: u64) -> Rng {
        Rng(splitmix(seed) | 1)
    }
    pub fn next(&mut self) -> u64 {
        let mut x = self.0;
        x ^= x >> 12;
        x ^= x << 25;
        x ^= x >> 27;
        self.0 = x;
        x.wrapping_mul(0x2545_F491_4F6C_DD1D)
    }
    /// uniform in 0..n (n > 0)
    pub fn below(&mut self, n: u64) -> u64 {
        if n == 0 {
            return 0;
        }
        self.next() % n
    }
    pub fn range(&mut self, lo: u64, hi: u64) -> u64 {
        lo + self.below(hi - lo + 1)
    }
    /// true with probability num/den
    pub fn chance(&mut self, num: u64, den: u64) -> bool {
        self.below(den) < num
    }
    pub fn pick<'a, T>(&mut self, xs: &'a [T]) -> &'a T {
        &xs[self.below(xs.len() as u64) as usize]
    }
    /// weighted index
    pub fn weighted(&mut self, w: &[u32]) -> usize {
        let total: u64 = w.iter().map(|x| *x as u64).sum();
        if total == 0 {
            return 0;
        }
        let mut r = self.below(total);
        for (i, x) in w.iter().enumerate() {
            if r < *x as u64 {
                return i;
            }
            r -= *x as u64;
        }
        w.len() - 1
    }
    pub fn shuffle<T>(&mut self, xs: &mut [T]) {
        for i in (1..xs.len()).rev() {
            let j = self.below(i as u64 + 1) as usize;
            xs.swap(i, j);
        }
    }
}

/// FNV-1a style incremental hash used for trace fingerprints.
#[derive(Clone, Copy, Debug)]
pub struct Fp(pub u64);

impl Default for Fp {
    fn default() -> Self {
        Fp(0xcbf2_9ce4_8422_2325)
    }
}

impl Fp {
    pub fn add(&mut self, x: u64) {
        let mut h = self.0;
        for i in 0..8 {
            h ^= (x >> (i * 8)) & 0xff;
            h = h.wrapping_mul(0x0000_0100_0000_01B3);
        }
        self.0 = h;
    }
    pub fn add_str(&mut self, s: &str) {
        let mut h = self.0;
        for b in s.bytes() {
            h ^= b as u64;
            h = h.wrapping_mul(0x0000_0100_0000_01B3);
        }
        self.0 = h;
    }
}
