//! The bodies of the user callbacks the simulator hands to calloop. Each one (1) checks the
//! invocation against the model at the moment it happens, (2) interprets the next entry of
//! the source's script, (3) returns the scripted value.

use std::time::Instant;

use calloop::channel::Event as ChanEvent;
use calloop::timer::TimeoutAction;
use calloop::{PostAction, Readiness};

use crate::model::*;
use crate::ops::exec_op;
use crate::os;
use crate::program::*;
use crate::sim::*;

/// Checks common to every source callback. Returns false if the run is dead.
pub fn common(sim: &Sim, id: Id, tag: &Tag) -> bool {
    if sim.is_dead() {
        return false;
    }
    sim.probe("callbacks");
    if tag.0 != sim.tag {
        sim.violate("callback.wrong_data", vec![], format!("callback of source {} received foreign dispatch data", id));
        return false;
    }
    let mut st = sim.st.borrow_mut();
    let idle_phase = st.idle_phase;
    let Some(s) = st.srcs.get_mut(&id) else {
        drop(st);
        sim.violate("callback.never_inserted", vec![], format!("callback of source {} ran although its insertion never succeeded", id));
        return false;
    };
    s.cb_this_dispatch += 1;
    let own = s.in_processing > 0;
    let kind = s.k.name();
    let (inserted, enabled, indet, ever) = (s.inserted, s.enabled, s.indeterminate, s.token.is_some());
    let excused_earlier = s.excused;
    drop(st);
    if idle_phase {
        sim.violate("idle.before_source_callback", vec![], format!("callback of source {} ran after the idle callbacks of the same dispatch had started", id));
        return false;
    }
    if indet {
        return true;
    }
    if !ever {
        sim.violate("callback.never_inserted", vec![format!("kind={}", kind)], format!("callback of source {} ran although its insertion failed", id));
        return false;
    }
    if !own {
        // calloop calls a source's callback only from inside its own event processing
        sim.violate("callback.after_remove", vec![format!("kind={}", kind), "outside_event_scope".into()], format!("callback of source {} ran outside of its event processing", id));
        return false;
    }
    // `own` is true here: the latitude of C01/C06/C07 covers a source that removed/disabled
    // *itself during this very event*; one that was removed or disabled before this event
    // started must not be called
    let st = sim.st.borrow();
    let s = st.srcs.get(&id).unwrap();
    let self_inflicted = s.removed_in_own_cb || s.deferred.is_some();
    drop(st);
    if !inserted && !self_inflicted {
        sim.violate(
            "callback.after_remove",
            vec![format!("kind={}", kind), if excused_earlier { "removed_earlier_same_dispatch".into() } else { "removed_before_dispatch".into() }],
            format!("callback of {} source {} ran after the source was removed", kind, id),
        );
        return false;
    }
    if inserted && !enabled {
        sim.violate(
            "callback.while_disabled",
            vec![format!("kind={}", kind), if excused_earlier { "disabled_earlier_same_dispatch".into() } else { "disabled_before_dispatch".into() }],
            format!("callback of {} source {} ran while the source is disabled", kind, id),
        );
        return false;
    }
    if excused_earlier {
        sim.probe("event_for_source_touched_earlier_in_dispatch");
    }
    sim.rule_ok(&["C01", "C06", "C07"], 10 + excused_earlier as u64);
    true
}

/// Pop the next script entry of `id` and run its operations. Returns the scripted return.
pub fn run_script(sim: &Sim, id: Id) -> Ret {
    let entry = {
        let mut st = sim.st.borrow_mut();
        st.srcs.get_mut(&id).and_then(|s| s.script.pop_front())
    };
    let Some(entry) = entry else { return Ret::Continue };
    for op in &entry.ops {
        exec_op(sim, op, true);
        if sim.is_dead() {
            break;
        }
    }
    entry.ret
}

pub fn on_ping(id: Id, tag: &mut Tag) {
    let sim = cur();
    sim.trace(|| format!("   cb ping {}", id));
    if !common(&sim, id, tag) {
        return;
    }
    {
        let mut st = sim.st.borrow_mut();
        let s = st.srcs.get_mut(&id).unwrap();
        if !s.indeterminate {
            if let K::Ping(p) = &mut s.k {
                p.cb_in_pe += 1;
                let had = p.pending_at_pe;
                let twice = p.cb_in_pe > 1;
                p.pending = false;
                p.pending_at_pe = false;
                drop(st);
                if twice {
                    sim.violate("ping.two_callbacks_one_dispatch", vec![], format!("ping source {} ran its callback twice for one event", id));
                    return;
                }
                if !had {
                    sim.violate("ping.callback_without_ping", vec![], format!("ping source {} ran its callback although nobody pinged it since its last callback", id));
                    return;
                }
                sim.rule_ok(&["C03"], 20);
            }
        }
    }
    run_script(&sim, id);
}

pub fn on_channel(id: Id, ev: ChanEvent<u64>, tag: &mut Tag) {
    let sim = cur();
    sim.trace(|| format!("   cb channel {} {:?}", id, ev));
    if !common(&sim, id, tag) {
        return;
    }
    {
        let mut st = sim.st.borrow_mut();
        let s = st.srcs.get_mut(&id).unwrap();
        if !s.indeterminate {
            if let K::Channel(c) = &mut s.k {
                let mut viol: Option<(&'static str, String)> = None;
                if c.closed_delivered {
                    viol = Some(("channel.after_closed", format!("channel {} delivered {:?} after Closed", id, ev)));
                } else {
                    match ev {
                        ChanEvent::Msg(v) => {
                            c.msgs_in_pe += 1;
                            match c.queue.pop_front() {
                                Some(x) if x == v => {}
                                other => viol = Some(("channel.wrong_message", format!("channel {} delivered {:#x}, the model expected {:?}", id, v, other))),
                            }
                        }
                        ChanEvent::Closed => {
                            if c.n_senders() > 0 || !c.queue.is_empty() {
                                viol = Some(("channel.closed_early", format!("channel {} delivered Closed with {} senders alive and {} messages queued", id, c.n_senders(), c.queue.len())));
                            }
                            c.closed_delivered = true;
                        }
                    }
                }
                drop(st);
                if let Some((r, d)) = viol {
                    sim.violate(r, vec![], d);
                    return;
                }
                sim.rule_ok(&["C04"], 30);
            }
        }
    }
    run_script(&sim, id);
}

pub fn on_timer(id: Id, ev: Instant, tag: &mut Tag) -> TimeoutAction {
    let sim = cur();
    let now = sim.now_ns();
    sim.trace(|| format!("   cb timer {} event={} now={}", id, sim.ns_of(ev), now));
    if !common(&sim, id, tag) {
        return TimeoutAction::Drop;
    }
    let mut indet = false;
    {
        let mut st = sim.st.borrow_mut();
        let order_prev = st.timer_fire_deadlines.last().copied();
        let s = st.srcs.get_mut(&id).unwrap();
        indet = s.indeterminate;
        let excused = s.excused;
        if !indet {
            if let K::Timer(t) = &mut s.k {
                let mut viol: Option<(&'static str, Vec<String>, String)> = None;
                let ev_ns = sim.ns_of(ev);
                let mut flags = vec![];
                if excused {
                    flags.push("rearmed_or_touched_earlier_same_dispatch".to_string());
                }
                if !t.armed {
                    viol = Some(("timer.fired_unarmed", flags.clone(), format!("timer {} fired although no arming is outstanding", id)));
                } else if t.fired_arm == Some(t.arm_no) {
                    viol = Some(("timer.fired_twice", flags.clone(), format!("timer {} fired twice for one arming", id)));
                } else {
                    match t.deadline {
                        Some(d) => {
                            if now < d {
                                viol = Some(("timer.early", flags.clone(), format!("timer {} fired at t={} ns, {} ns before its current deadline {}", id, now, d - now, d)));
                            } else if ev_ns != d {
                                viol = Some(("timer.wrong_event", flags.clone(), format!("timer {} received event {} but its deadline is {}", id, ev_ns, d)));
                            } else if let Some(p) = order_prev {
                                if p > d {
                                    viol = Some(("timer.order", flags.clone(), format!("timer {} (deadline {}) fired after a timer with deadline {} in the same dispatch", id, d, p)));
                                }
                            }
                        }
                        None => viol = Some(("timer.fired_unarmed", flags.clone(), format!("timer {} without representable deadline fired", id))),
                    }
                }
                t.fired_arm = Some(t.arm_no);
                t.armed = false;
                let d = t.deadline;
                if let Some(d) = d {
                    st.timer_fire_deadlines.push(d);
                }
                drop(st);
                if let Some((r, f, dd)) = viol {
                    // re-armed by another callback of this dispatch: that operation did not have
                    // the effect it has outside a dispatch, which is C08's business too
                    let extra: &[&str] = if excused { &["C08"] } else { &[] };
                    sim.violate_props(r, extra, f, dd);
                    return TimeoutAction::Drop;
                }
                sim.rule_ok(&["C05"], 40 + excused as u64);
            }
        }
    }
    let ret = run_script(&sim, id);
    // apply the scripted return to the model, then hand it to calloop
    let now = sim.now_ns();
    let mut st = sim.st.borrow_mut();
    let s = st.srcs.get_mut(&id).unwrap();
    let K::Timer(t) = &mut s.k else { return TimeoutAction::Drop };
    let _ = indet;
    match ret {
        Ret::TAt(at) => {
            t.deadline = Some(at);
            t.armed = true;
            t.arm_no += 1;
            TimeoutAction::ToInstant(sim.instant_at(at))
        }
        Ret::TIn(d) if d != u64::MAX => {
            t.deadline = Some(now.saturating_add(d));
            t.armed = true;
            t.arm_no += 1;
            TimeoutAction::ToDuration(std::time::Duration::from_nanos(d))
        }
        Ret::TIn(_) => {
            t.deadline = None;
            t.expect_remove = true;
            TimeoutAction::ToDuration(std::time::Duration::MAX)
        }
        _ => {
            t.expect_remove = true;
            TimeoutAction::Drop
        }
    }
}

pub fn on_generic(id: Id, ev: Readiness, tag: &mut Tag) -> std::io::Result<PostAction> {
    let sim = cur();
    sim.trace(|| format!("   cb generic {} r={} w={}", id, ev.readable, ev.writable));
    if !common(&sim, id, tag) {
        return Ok(PostAction::Continue);
    }
    {
        let st = sim.st.borrow();
        let s = st.srcs.get(&id).unwrap();
        if !s.indeterminate {
            if let K::Generic(g) = &s.k {
                // the readiness handed over must be explained by the registered interest or
                // by HUP/ERR ground truth
                let rev = os::poll_revents(std::os::fd::AsRawFd::as_raw_fd(&*g.own.0));
                let huperr = rev & (os::PHUP | os::PERR) != 0;
                let mut bad = None;
                if ev.readable && g.reg_interest & 1 == 0 && !huperr {
                    bad = Some("readable");
                }
                if ev.writable && g.reg_interest & 2 == 0 && !huperr {
                    bad = Some("writable");
                }
                if !ev.readable && !ev.writable {
                    bad = Some("empty");
                }
                let excused = s.excused;
                drop(st);
                if let Some(b) = bad {
                    if !excused {
                        sim.violate("generic.event_without_readiness", vec![b.to_string()], format!("generic source {} was handed {} readiness it did not register for", id, b));
                        return Ok(PostAction::Continue);
                    }
                }
                sim.rule_ok(&["C02"], 50);
            }
        }
    }
    let ret = run_script(&sim, id);
    match ret {
        Ret::Continue => Ok(PostAction::Continue),
        Ret::Reregister => Ok(PostAction::Reregister),
        Ret::Disable => Ok(PostAction::Disable),
        Ret::Remove => Ok(PostAction::Remove),
        Ret::UnwrapRemove => {
            if let Some(s) = sim.st.borrow().srcs.get(&id) {
                s.sh.unwrap_now.set(true);
            }
            sim.probe("unwrap_while_registered");
            Ok(PostAction::Remove)
        }
        Ret::Err => {
            sim.hk.borrow_mut().cb_err_returned = true;
            sim.probe("callback_returned_err");
            Err(std::io::Error::new(std::io::ErrorKind::Other, "scripted callback error"))
        }
        _ => Ok(PostAction::Continue),
    }
}

pub fn on_idle(id: Id, tag: &mut Tag) {
    let sim = cur();
    if sim.is_dead() {
        return;
    }
    sim.trace(|| format!("   idle {}", id));
    let _ = tag;
    let (in_dispatch, dn) = {
        let hk = sim.hk.borrow();
        (hk.in_dispatch, hk.dispatch_no)
    };
    let ops = {
        let mut st = sim.st.borrow_mut();
        if !st.idle_phase {
            // the idle phase starts: these are the idles that must run now, in this order
            st.idle_phase = true;
            let q: Vec<Id> = st.idle_queue.iter().copied().filter(|i| st.idles.get(i).map(|x| x.state == IdleState::Pending).unwrap_or(false)).collect();
            st.idle_expected = q;
        }
        let mut viol: Option<(&'static str, String)> = None;
        if !in_dispatch {
            viol = Some(("idle.outside_dispatch", format!("idle {} ran outside of a dispatch", id)));
        }
        // skip entries cancelled since the phase started
        while let Some(f) = st.idle_expected.first().copied() {
            if st.idles.get(&f).map(|x| x.state == IdleState::Cancelled).unwrap_or(true) {
                st.idle_expected.remove(0);
            } else {
                break;
            }
        }
        let expected_next = st.idle_expected.first().copied();
        let Some(i) = st.idles.get_mut(&id) else { return };
        match i.state {
            IdleState::Cancelled => viol = Some(("idle.ran_cancelled", format!("idle {} ran although it was cancelled", id))),
            IdleState::Ran => viol = Some(("idle.ran_twice", format!("idle {} ran twice", id))),
            IdleState::Pending => {
                if i.inserted_in_idle_phase && i.inserted_in_dispatch == Some(dn) {
                    viol = Some(("idle.same_dispatch_as_parent", format!("idle {} was inserted by an idle callback and ran in the same dispatch", id)));
                } else if expected_next != Some(id) {
                    viol = Some(("idle.order", format!("idle {} ran, but idle {:?} was inserted before it and is still pending", id, expected_next)));
                }
            }
        }
        i.state = IdleState::Ran;
        i.running = true;
        let ops = i.ops.take();
        st.idle_queue.retain(|x| *x != id);
        if st.idle_expected.first() == Some(&id) {
            st.idle_expected.remove(0);
        }
        st.cur_idle = Some(id);
        drop(st);
        if let Some((r, d)) = viol {
            sim.violate(r, vec![], d);
            return;
        }
        sim.rule_ok(&["C13"], 60);
        ops
    };
    if let Some(ops) = ops {
        for op in &ops {
            exec_op(&sim, op, true);
            if sim.is_dead() {
                break;
            }
        }
    }
    let mut st = sim.st.borrow_mut();
    st.cur_idle = None;
    if let Some(i) = st.idles.get_mut(&id) {
        i.running = false;
    }
}
