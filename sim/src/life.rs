//! C14 harness: an EventSource that opts into before_sleep / before_handle_events, with a
//! sub-token for scripted synthetic events and a PingSource child on a second sub-token.

use std::cell::Cell;
use std::collections::VecDeque;
use std::rc::Rc;

use calloop::ping::{make_ping, Ping, PingSource};
use calloop::{EventIterator, EventSource, Poll, PostAction, Readiness, Token, TokenFactory};

use crate::model::*;
use crate::program::*;
use crate::sim::*;
use crate::wrap::{Wrap, WrapShared};

#[derive(Debug, Clone, Copy, PartialEq, Eq)]
pub enum LifeEv {
    Synth,
    Ping,
    Ping2,
    /// an event (polled or synthetic, the source cannot tell) on the socket's sub-token
    Sock,
}

pub struct LifeK {
    pub handles: Vec<Ping>,
    pub has_ping: bool,
    pub pending: bool,
    /// second ping child (third sub-token)
    pub two: bool,
    pub handles2: Vec<Ping>,
    pub pending2: bool,
    /// per dispatch: does before_sleep return a synthetic event
    pub plan: VecDeque<bool>,
    // ---- per dispatch observations
    pub entitled: bool,
    pub bs: u32,
    pub bhe: u32,
    pub bs_after_wait: bool,
    pub bhe_before_wait: bool,
    pub bhe_after_pe: bool,
    pub synth_returned: bool,
    pub synth_delivered: u32,
    pub iter_keys: Vec<usize>,
    pub iter_checked: bool,
    // ---- socket child registered directly on its own sub-token
    pub sock: Option<(SharedFd, std::os::fd::OwnedFd)>,
    pub synth_on_sock: bool,
    /// full poller key of the socket's registration (0 = not registered)
    pub sock_key: Rc<Cell<usize>>,
    pub sock_events: u32,
}

pub struct LifeSrc {
    id: Id,
    ping: Option<PingSource>,
    ping2: Option<PingSource>,
    /// the last registration step fails (after the first child went into the poller)
    fail_step2: bool,
    synth_token: Option<Token>,
    sock: Option<SharedFd>,
    sock_token: Option<Token>,
    sock_key: Rc<Cell<usize>>,
    synth_on_sock: bool,
    /// forget the synthetic token at unregister (as calloop's own sources do with theirs)
    clear_token: bool,
    /// virtual time before_sleep takes
    slow: u64,
}

impl LifeSrc {
    fn sock_register(&mut self, poll: &mut Poll, tf: &mut TokenFactory, re: bool) -> calloop::Result<()> {
        if let Some(fd) = &self.sock {
            let t = tf.token();
            // SAFETY: the fd outlives the registration (unregistered in unregister(), and the
            // harness keeps the socket open)
            unsafe {
                if re {
                    poll.reregister(&*fd.0, calloop::Interest::READ, calloop::Mode::Level, t)?;
                } else {
                    poll.register(&*fd.0, calloop::Interest::READ, calloop::Mode::Level, t)?;
                }
            }
            self.sock_token = Some(t);
            self.sock_key.set(t.verif_key());
        }
        Ok(())
    }
}

impl EventSource for LifeSrc {
    type Event = LifeEv;
    type Metadata = ();
    type Ret = ();
    type Error = Box<dyn std::error::Error + Sync + Send>;

    fn process_events<F>(&mut self, readiness: Readiness, token: Token, mut callback: F) -> Result<PostAction, Self::Error>
    where
        F: FnMut(LifeEv, &mut ()),
    {
        if Some(token) == self.synth_token {
            callback(LifeEv::Synth, &mut ());
            return Ok(PostAction::Continue);
        }
        if self.sock_token == Some(token) {
            callback(LifeEv::Sock, &mut ());
            if let Some(fd) = &self.sock {
                crate::os::read(std::os::fd::AsRawFd::as_raw_fd(&*fd.0), 65536);
            }
            return Ok(PostAction::Continue);
        }
        let mut act = PostAction::Continue;
        if let Some(p) = &mut self.ping {
            act = p.process_events(readiness, token, |(), _| callback(LifeEv::Ping, &mut ()))?;
        }
        if let Some(p) = &mut self.ping2 {
            let a = p.process_events(readiness, token, |(), _| callback(LifeEv::Ping2, &mut ()))?;
            if act == PostAction::Continue {
                act = a;
            }
        }
        Ok(act)
    }

    fn register(&mut self, poll: &mut Poll, tf: &mut TokenFactory) -> calloop::Result<()> {
        self.synth_token = Some(tf.token());
        if let Some(p) = &mut self.ping {
            p.register(poll, tf)?;
        }
        if self.fail_step2 {
            return Err(calloop::Error::OtherError(Box::new(crate::wrap::Scripted("register (last step)"))));
        }
        if let Some(p) = &mut self.ping2 {
            p.register(poll, tf)?;
        }
        self.sock_register(poll, tf, false)
    }

    fn reregister(&mut self, poll: &mut Poll, tf: &mut TokenFactory) -> calloop::Result<()> {
        self.synth_token = Some(tf.token());
        if let Some(p) = &mut self.ping {
            p.reregister(poll, tf)?;
        }
        if let Some(p) = &mut self.ping2 {
            p.reregister(poll, tf)?;
        }
        self.sock_register(poll, tf, true)
    }

    fn unregister(&mut self, poll: &mut Poll) -> calloop::Result<()> {
        if self.clear_token {
            self.synth_token = None;
        }
        if let Some(p) = &mut self.ping {
            p.unregister(poll)?;
        }
        if let Some(p) = &mut self.ping2 {
            p.unregister(poll)?;
        }
        if let Some(fd) = &self.sock {
            if self.sock_token.take().is_some() {
                self.sock_key.set(0);
                poll.unregister(&*fd.0)?;
            }
        }
        Ok(())
    }

    const NEEDS_EXTRA_LIFECYCLE_EVENTS: bool = true;

    fn before_sleep(&mut self) -> calloop::Result<Option<(Readiness, Token)>> {
        let Some(sim) = try_cur() else { return Ok(None) };
        let waits = sim.hk.borrow().waits.len();
        let mut st = sim.st.borrow_mut();
        let Some(s) = st.srcs.get_mut(&self.id) else { return Ok(None) };
        let fail = s.sh.fail.borrow().iter().any(|f| f.0 == 5 && f.1 == 0);
        let K::Life(l) = &mut s.k else { return Ok(None) };
        l.bs += 1;
        if waits > 0 {
            l.bs_after_wait = true;
        }
        if fail {
            s.sh.fail.borrow_mut().retain(|f| f.0 != 5);
            drop(st);
            let mut hk = sim.hk.borrow_mut();
            hk.expected_err = true;
            return Err(calloop::Error::OtherError(Box::new(crate::wrap::Scripted("before_sleep"))));
        }
        let synth = l.bs == 1 && l.plan.pop_front().unwrap_or(false);
        if self.slow > 0 && l.bs == 1 {
            // the hook takes its time (other threads' events that fall into it wait for the
            // poll): the loop has to look at the clock again when it computes how long it may
            // sleep
            let now = sim.now_ns();
            let mut target = now.saturating_add(self.slow);
            if let Some(e) = st.env.front() {
                target = target.min(e.at.max(now));
            }
            if target > now {
                sim.clock.set(target);
                st.hook_time += target - now;
                drop(st);
                sim.probe("slow_before_sleep");
                st = sim.st.borrow_mut();
            }
        }
        let Some(s) = st.srcs.get_mut(&self.id) else { return Ok(None) };
        let K::Life(l) = &mut s.k else { return Ok(None) };
        if synth {
            let tok = if self.synth_on_sock { self.sock_token } else { self.synth_token };
            if let Some(t) = tok {
                l.synth_returned = true;
                st.wait_synthetic = true;
                return Ok(Some((Readiness { readable: true, writable: false, error: false }, t)));
            }
        }
        Ok(None)
    }

    fn before_handle_events(&mut self, events: EventIterator<'_>) {
        let Some(sim) = try_cur() else { return };
        let waits = sim.hk.borrow().waits.len();
        let keys: Vec<usize> = events.map(|(_, t)| t.verif_key()).collect();
        let mut st = sim.st.borrow_mut();
        let any_pe = st.srcs.values().any(|s| s.pe_this_dispatch > 0);
        let Some(s) = st.srcs.get_mut(&self.id) else { return };
        let K::Life(l) = &mut s.k else { return };
        l.bhe += 1;
        if waits == 0 {
            l.bhe_before_wait = true;
        }
        if any_pe {
            l.bhe_after_pe = true;
        }
        l.iter_keys = keys;
    }
}

#[allow(clippy::too_many_arguments)]
pub fn insert_lifecycle(sim: &Sim, id: Id, with_ping: bool, synth: &[bool], script: &Script, two: bool, fail_step2: bool, keep_rejected: bool, sock: bool, synth_on_sock: bool, clear_token: bool, slow: u64) {
    let Some(h) = sim.st.borrow().handle.clone() else { return };
    if sim.st.borrow().srcs.contains_key(&id) {
        return;
    }
    let (handles, psrc) = if with_ping {
        match make_ping() {
            Ok((p, s)) => (vec![p], Some(s)),
            Err(_) => return,
        }
    } else {
        (vec![], None)
    };
    let (handles2, psrc2) = if two {
        match make_ping() {
            Ok((p, s)) => (vec![p], Some(s)),
            Err(_) => return,
        }
    } else {
        (vec![], None)
    };
    let fail_step2 = fail_step2 && two;
    let sock_key = Rc::new(Cell::new(0usize));
    let (sock_src, sock_model) = if sock {
        let (a, b) = crate::os::socketpair();
        let own = SharedFd(Rc::new(a));
        (Some(own.clone()), Some((own, b)))
    } else {
        (None, None)
    };
    let sh = WrapShared::new(id);
    let cbd = Rc::new(Cell::new(0));
    let guard = crate::ops::DropCtr(cbd.clone());
    let k = K::Life(LifeK {
        handles,
        has_ping: with_ping,
        pending: false,
        two,
        handles2,
        pending2: false,
        plan: synth.iter().copied().collect(),
        entitled: false,
        bs: 0,
        bhe: 0,
        bs_after_wait: false,
        bhe_before_wait: false,
        bhe_after_pe: false,
        synth_returned: false,
        synth_delivered: 0,
        iter_keys: vec![],
        iter_checked: false,
        sock: sock_model,
        synth_on_sock,
        sock_key: sock_key.clone(),
        sock_events: 0,
    });
    let src = crate::ops::new_src(id, script, k, sh.clone(), cbd);
    let source = LifeSrc { id, ping: psrc, ping2: psrc2, fail_step2, synth_token: None, sock: sock_src, sock_token: None, sock_key, synth_on_sock, clear_token, slow };
    let rejected: Rc<std::cell::RefCell<Option<Box<dyn std::any::Any>>>> = Rc::new(std::cell::RefCell::new(None));
    let rej = rejected.clone();
    let keep_rejected = keep_rejected && two;
    let before: Vec<u64> = if keep_rejected { crate::os::epoll_table(sim.hk.borrow().epfd).iter().map(|e| e.data).collect() } else { vec![] };
    let r = crate::ops::guarded(sim, "insert_source", || {
        h.insert_source(Wrap::new(source, sh), move |ev, _, tag: &mut Tag| {
            let _g = &guard;
            on_life(id, ev, tag, !clear_token);
        })
        .map_err(|e| {
            if keep_rejected {
                *rej.borrow_mut() = Some(Box::new(e.inserted));
            }
            e.error.to_string()
        })
    });
    if let Some(r) = r {
        if r.is_err() && fail_step2 {
            sim.probe("scripted_failure");
        }
        crate::ops::finish_insert(sim, id, src, r, fail_step2);
        // (the model's ping handles are gone with the rejected source's model entry: a kept
        // source's children read as closed, so what is left in the poller stays ready)
        if let Some(b) = rejected.borrow_mut().take() {
            note_leaked(sim, b, &before);
        }
    }
}

pub fn on_life(id: Id, ev: LifeEv, tag: &mut Tag, forgetful: bool) {
    let sim = cur();
    sim.trace(|| format!("   cb lifecycle {} {:?}", id, ev));
    if forgetful {
        // C07's "not even for events already collected in the current dispatch" is delivered by
        // the sources forgetting their token in unregister() (the property names that mechanism);
        // a source which keeps reacting to its old token gets the event collected before another
        // callback of the same dispatch disabled it. Only that case is its own business: an
        // event reaching it in a later dispatch is still judged.
        let st = sim.st.borrow();
        if let Some(s) = st.srcs.get(&id) {
            if s.inserted && !s.enabled && s.excused && s.in_processing > 0 && !s.indeterminate {
                drop(st);
                sim.probe("forgetful_source_got_collected_event");
                return;
            }
        }
    }
    if !crate::cb::common(&sim, id, tag) {
        return;
    }
    {
        let mut st = sim.st.borrow_mut();
        let s = st.srcs.get_mut(&id).unwrap();
        if !s.indeterminate {
            if let K::Life(l) = &mut s.k {
                let mut viol = None;
                match ev {
                    LifeEv::Synth => {
                        l.synth_delivered += 1;
                        if !l.synth_returned || l.synth_delivered > 1 {
                            viol = Some(("lifecycle.synthetic_not_delivered", format!("lifecycle source {} received a synthetic event it did not return from before_sleep in this dispatch", id)));
                        }
                    }
                    LifeEv::Ping => {
                        if !l.pending {
                            viol = Some(("ping.callback_without_ping", format!("lifecycle source {}: ping child callback without a ping", id)));
                        }
                        l.pending = false;
                    }
                    LifeEv::Sock => {
                        l.sock_events += 1;
                    }
                    LifeEv::Ping2 => {
                        if !l.pending2 {
                            viol = Some(("ping.callback_without_ping", format!("lifecycle source {}: second ping child callback without a ping", id)));
                        }
                        l.pending2 = false;
                    }
                }
                drop(st);
                if let Some((r, d)) = viol {
                    sim.violate(r, vec![], d);
                    return;
                }
            }
        }
    }
    crate::cb::run_script(&sim, id);
}

/// dispatch start: who is entitled to lifecycle calls in this dispatch
pub fn dispatch_start(st: &mut St) {
    st.wait_synthetic = false;
    for s in st.srcs.values_mut() {
        let ent = s.inserted && s.enabled && !s.indeterminate;
        if let K::Life(l) = &mut s.k {
            l.entitled = ent;
            l.bs = 0;
            l.bhe = 0;
            l.bs_after_wait = false;
            l.bhe_before_wait = false;
            l.bhe_after_pe = false;
            l.synth_returned = false;
            l.synth_delivered = 0;
            l.sock_events = 0;
            l.iter_keys.clear();
        }
    }
}

/// after a dispatch whose hooks and wait succeeded
pub fn after_dispatch(sim: &Sim, ok: bool, waited: bool) {
    let batch = sim.hk.borrow().batch.clone();
    let st = sim.st.borrow();
    let any_indet = st.srcs.values().any(|s| s.indeterminate);
    let mut viol: Option<(&'static str, Vec<String>, String)> = None;
    let mut n = 0u64;
    for (id, s) in st.srcs.iter() {
        let K::Life(l) = &s.k else { continue };
        if s.indeterminate {
            continue;
        }
        n += 1;
        if !waited {
            // a hook failed before the wait: nothing is promised for this dispatch, except
            // that nobody unentitled is called
            if !l.entitled && (l.bs > 0 || l.bhe > 0) {
                viol = Some(("lifecycle.not_entitled", vec![], format!("lifecycle source {} is disabled/removed but received lifecycle calls", id)));
            }
            continue;
        }
        if l.entitled {
            if l.bs != 1 {
                viol = Some(("lifecycle.before_sleep_count", vec![if l.bs > 1 { "extra".into() } else { "missing".into() }], format!("lifecycle source {} received {} before_sleep calls in one dispatch", id, l.bs)));
            } else if l.bhe != 1 {
                viol = Some(("lifecycle.before_handle_events_count", vec![if l.bhe > 1 { "extra".into() } else { "missing".into() }], format!("lifecycle source {} received {} before_handle_events calls in one dispatch", id, l.bhe)));
            } else if l.bs_after_wait || l.bhe_before_wait || l.bhe_after_pe {
                viol = Some(("lifecycle.order", vec![], format!("lifecycle source {}: before_sleep after the wait, or before_handle_events before the wait / after a process_events", id)));
            } else {
                // the iterator must yield exactly the real events of this source
                let rk = s.reg_key.unwrap_or(usize::MAX);
                let expect: Vec<usize> = batch.iter().filter(|e| reg_key_of(e.key) == rk).map(|e| e.key).collect();
                if expect != l.iter_keys && !any_indet {
                    viol = Some(("lifecycle.iterator", vec![], format!("lifecycle source {}: before_handle_events iterator yielded keys {:x?}, the polled batch holds {:x?} for it", id, l.iter_keys, expect)));
                }
                // the socket's token: one call per polled event and one for a synthetic event
                // that carries it - never merged, never dropped
                let sk = l.sock_key.get();
                if ok && sk != 0 && !s.excused && !any_indet {
                    let polled = batch.iter().filter(|e| e.key == sk).count() as u32;
                    let synth = (l.synth_returned && l.synth_on_sock) as u32;
                    if l.sock_events != polled + synth {
                        viol = Some(("lifecycle.synthetic_not_delivered", vec!["shared_token".into()], format!("lifecycle source {}: its socket sub-token had {} polled and {} synthetic event(s) in this dispatch but process_events was called {} time(s) for it", id, polled, synth, l.sock_events)));
                    }
                }
                if ok && l.synth_returned && !l.synth_on_sock && l.synth_delivered != 1 && !s.excused {
                    viol = Some(("lifecycle.synthetic_not_delivered", vec![], format!("lifecycle source {} returned a synthetic event from before_sleep but it was delivered {} times", id, l.synth_delivered)));
                }
            }
        } else if l.bs > 0 || l.bhe > 0 {
            viol = Some(("lifecycle.not_entitled", vec![if s.inserted { "disabled".into() } else { "removed".into() }], format!("lifecycle source {} is disabled/removed but received {} before_sleep and {} before_handle_events calls", id, l.bs, l.bhe)));
        }
        if viol.is_some() {
            break;
        }
    }
    drop(st);
    if let Some((r, f, d)) = viol {
        sim.violate(r, f, d);
    } else if n > 0 {
        sim.rule_ok(&["C14"], 140 + n);
    }
}

/// The program keeps a source whose insertion failed half-way: what it had already put into the
/// poller stays there, under the key of the slot generation that insertion used. Those keys
/// belong to nobody from now on.
fn note_leaked(sim: &Sim, rejected: Box<dyn std::any::Any>, before: &[u64]) {
    let epfd = sim.hk.borrow().epfd;
    let mut st = sim.st.borrow_mut();
    let mut n = 0;
    for e in crate::os::epoll_table(epfd) {
        // what this insertion added to the poller before it failed
        if before.contains(&e.data) {
            continue;
        }
        st.leaked_keys.insert(e.data as usize);
        st.extra_table.push((e.data, e.events, None));
        n += 1;
    }
    st.kept_rejected.push(rejected);
    drop(st);
    if n > 0 {
        sim.probe("registration_left_by_failed_insert");
        sim.trace(|| format!("  kept the rejected source: {} poller entries stay behind", n));
    }
}
