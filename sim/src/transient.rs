//! C18 harness: a parent EventSource (written the way the TransientSource documentation
//! shows) holding a `TransientSource<child>`; children are instrumented wrappers over a real
//! pipe read end (Generic) or a real Timer.

use std::cell::{Cell, RefCell};
use std::os::fd::{AsRawFd, OwnedFd};
use std::rc::Rc;

use calloop::generic::Generic;
use calloop::timer::{TimeoutAction, Timer};
use calloop::transient::TransientSource;
use calloop::{Dispatcher, EventSource, Interest, Mode, Poll, PostAction, Readiness, Token, TokenFactory};

use crate::model::*;
use crate::ops::{finish_insert, guarded, new_src, DropCtr};
use crate::os;
use crate::program::*;
use crate::sim::*;
use crate::wrap::{Wrap, WrapShared};

/// Registration log of one child (shared with the model).
#[derive(Default, Debug)]
pub struct ChildLog {
    pub no: u32,
    pub registered: Cell<bool>,
    pub reg: Cell<u32>,
    pub rereg: Cell<u32>,
    pub unreg: Cell<u32>,
    pub dropped: Cell<u32>,
    pub double_register: Cell<bool>,
    pub double_unregister: Cell<bool>,
    pub dropped_registered: Cell<bool>,
    pub events: Cell<u32>,
    /// this child returned PostAction::Disable at some point
    pub ever_disabled: Cell<bool>,
    /// what the child's process_events returns next
    pub next_ret: Cell<Option<PostAction>>,
    /// the parent source (for scripted failures)
    pub parent: Id,
    /// scripted failures: bit 1 = the next register() fails, bit 2 = the next unregister() fails
    /// (before doing anything, so the child's registration is as it was)
    pub fail: Cell<u8>,
    pub fail_fired: Cell<bool>,
    pub reported: Cell<bool>,
}

enum ChildImpl {
    Pipe(Generic<SharedFd>),
    Timer(Timer),
}

pub struct Child {
    imp: ChildImpl,
    log: Rc<ChildLog>,
    /// calls back for every event it is handed, also while unregistered
    eager: bool,
}

// only to satisfy the `T: Default` bound the derive on TransientSource adds; never called
impl Default for Child {
    fn default() -> Child {
        Child { imp: ChildImpl::Timer(Timer::from_duration(std::time::Duration::from_secs(1))), log: Rc::new(ChildLog::default()), eager: false }
    }
}

impl Drop for Child {
    fn drop(&mut self) {
        self.log.dropped.set(self.log.dropped.get() + 1);
        if self.log.registered.get() {
            self.log.dropped_registered.set(true);
        }
    }
}

impl EventSource for Child {
    type Event = u32; // the child's number
    type Metadata = ();
    type Ret = ();
    type Error = Box<dyn std::error::Error + Sync + Send>;

    fn process_events<F>(&mut self, readiness: Readiness, token: Token, mut callback: F) -> Result<PostAction, Self::Error>
    where
        F: FnMut(u32, &mut ()),
    {
        let no = self.log.no;
        let mut fired = false;
        let inner = match &mut self.imp {
            ChildImpl::Pipe(g) => g
                .process_events(readiness, token, |_, _| {
                    fired = true;
                    callback(no, &mut ());
                    Ok(PostAction::Continue)
                })
                .map_err(|e| Box::new(e) as Box<dyn std::error::Error + Sync + Send>)?,
            ChildImpl::Timer(t) => t
                .process_events(readiness, token, |_, _| {
                    fired = true;
                    callback(no, &mut ());
                    TimeoutAction::ToDuration(std::time::Duration::from_millis(5))
                })
                .map_err(|e| Box::new(e) as Box<dyn std::error::Error + Sync + Send>)?,
        };
        if !fired && self.eager {
            fired = true;
            callback(no, &mut ());
        }
        if fired {
            self.log.events.set(self.log.events.get() + 1);
            if let Some(r) = self.log.next_ret.take() {
                return Ok(r);
            }
        }
        Ok(inner)
    }

    fn register(&mut self, poll: &mut Poll, tf: &mut TokenFactory) -> calloop::Result<()> {
        if self.log.fail.get() & 1 != 0 {
            self.log.fail.set(self.log.fail.get() & !1);
            self.log.fail_fired.set(true);
            crate::engine::scripted_failure(self.log.parent, 1);
            return Err(calloop::Error::OtherError(Box::new(crate::wrap::Scripted("child register"))));
        }
        self.log.reg.set(self.log.reg.get() + 1);
        if self.log.registered.get() {
            self.log.double_register.set(true);
        }
        match &mut self.imp {
            ChildImpl::Pipe(g) => g.register(poll, tf)?,
            ChildImpl::Timer(t) => t.register(poll, tf)?,
        }
        self.log.registered.set(true);
        Ok(())
    }

    fn reregister(&mut self, poll: &mut Poll, tf: &mut TokenFactory) -> calloop::Result<()> {
        self.log.rereg.set(self.log.rereg.get() + 1);
        match &mut self.imp {
            ChildImpl::Pipe(g) => g.reregister(poll, tf)?,
            ChildImpl::Timer(t) => t.reregister(poll, tf)?,
        }
        Ok(())
    }

    fn unregister(&mut self, poll: &mut Poll) -> calloop::Result<()> {
        if self.log.fail.get() & 2 != 0 {
            self.log.fail.set(self.log.fail.get() & !2);
            self.log.fail_fired.set(true);
            crate::engine::scripted_failure(self.log.parent, 3);
            return Err(calloop::Error::OtherError(Box::new(crate::wrap::Scripted("child unregister"))));
        }
        self.log.unreg.set(self.log.unreg.get() + 1);
        if !self.log.registered.get() {
            self.log.double_unregister.set(true);
        }
        self.log.registered.set(false);
        match &mut self.imp {
            ChildImpl::Pipe(g) => g.unregister(poll)?,
            ChildImpl::Timer(t) => t.unregister(poll)?,
        }
        Ok(())
    }
}

/// The parent: forwards everything to its TransientSource, as the documentation shows.
pub enum InProc {
    Remove,
    Replace(Child),
}

pub struct TrParent {
    pub tr: TransientSource<Child>,
    pub rets: Rc<RefCell<Vec<PostAction>>>,
    /// remove()/replace() requested by the callback: applied during this very process_events,
    /// after the child has been processed ("may be called at any time during processing")
    pub inproc: Rc<RefCell<Vec<InProc>>>,
    /// what the parent returns from this process_events instead of the wrapper's answer
    pub parent_ret: Rc<Cell<Option<PostAction>>>,
}

impl EventSource for TrParent {
    type Event = u32;
    type Metadata = ();
    type Ret = ();
    type Error = Box<dyn std::error::Error + Sync + Send>;

    fn process_events<F>(&mut self, readiness: Readiness, token: Token, callback: F) -> Result<PostAction, Self::Error>
    where
        F: FnMut(u32, &mut ()),
    {
        let r = self.tr.process_events(readiness, token, callback)?;
        self.rets.borrow_mut().push(r);
        let mut r = r;
        if let Some(p) = self.parent_ret.take() {
            r = p;
        }
        let todo: Vec<InProc> = self.inproc.borrow_mut().drain(..).collect();
        for t in todo {
            match t {
                InProc::Remove => self.tr.remove(),
                InProc::Replace(c) => self.tr.replace(c),
            }
            // as documented: the change requires PostAction::Reregister from this call
            r = PostAction::Reregister;
        }
        Ok(r)
    }

    fn register(&mut self, poll: &mut Poll, tf: &mut TokenFactory) -> calloop::Result<()> {
        self.tr.register(poll, tf)
    }

    fn reregister(&mut self, poll: &mut Poll, tf: &mut TokenFactory) -> calloop::Result<()> {
        self.tr.reregister(poll, tf)
    }

    fn unregister(&mut self, poll: &mut Poll) -> calloop::Result<()> {
        self.tr.unregister(poll)
    }
}

pub struct ChildM {
    pub log: Rc<ChildLog>,
    pub fd: Option<SharedFd>,
    pub peer: Option<Rc<OwnedFd>>,
    pub is_timer: bool,
    pub eager: bool,
}

pub struct TransK {
    pub disp: Option<Dispatcher<'static, Wrap<TrParent>, Tag>>,
    pub children: Vec<ChildM>,
    /// index into children of the current child, if any
    pub current: Option<usize>,
    /// the current child asked to be disabled (stays so until the parent registers again)
    pub child_disabled: bool,
    /// a remove()/replace() was requested and takes effect at the next (re)registration
    pub pending_remove: bool,
    pub pending_replace: Option<usize>,
    pub rets: Rc<RefCell<Vec<PostAction>>>,
    pub rets_checked: usize,
    pub inproc: Rc<RefCell<Vec<InProc>>>,
    /// scripted failure armed for the next replacement child's register()
    pub arm_new_register_fail: bool,
    pub parent_ret: Rc<Cell<Option<PostAction>>>,
    /// the history left the documented protocol (documented leak, non-alternating parent calls)
    pub gave_up: bool,
}

fn make_child(sim: &Sim, spec: &ChildSpec, no: u32, parent: Id, fail: u8) -> (Child, ChildM) {
    let log = Rc::new(ChildLog { no, parent, fail: Cell::new(fail), ..Default::default() });
    match spec {
        ChildSpec::Timer(dl) => {
            let t = match dl {
                Deadline::Immediate => Timer::immediate(),
                Deadline::In(u64::MAX) => Timer::from_duration(std::time::Duration::from_secs(3600)),
                Deadline::In(d) => Timer::from_duration(std::time::Duration::from_nanos(*d)),
                Deadline::At(t) => Timer::from_deadline(sim.instant_at(*t)),
            };
            (Child { imp: ChildImpl::Timer(t), log: log.clone(), eager: false }, ChildM { log, fd: None, peer: None, is_timer: true, eager: false })
        }
        _ => {
            let same = if matches!(spec, ChildSpec::SameFd) {
                let st = sim.st.borrow();
                match st.srcs.get(&parent).map(|s| &s.k) {
                    Some(K::Trans(t)) => t.current.and_then(|i| match (&t.children[i].fd, &t.children[i].peer) {
                        (Some(fd), Some(p)) => Some((fd.clone(), p.clone())),
                        _ => None,
                    }),
                    _ => None,
                }
            } else {
                None
            };
            let (fd, w) = match same {
                Some(x) => {
                    sim.probe("transient_replacement_on_same_fd");
                    x
                }
                None => {
                    let (r, w) = os::pipe();
                    (SharedFd(Rc::new(r)), Rc::new(w))
                }
            };
            let g = Generic::new(fd.clone(), Interest::READ, Mode::Level);
            {
                let eager = matches!(spec, ChildSpec::Eager);
                (Child { imp: ChildImpl::Pipe(g), log: log.clone(), eager }, ChildM { log, fd: Some(fd), peer: Some(w), is_timer: false, eager })
            }
        }
    }
}

pub fn insert_transient(sim: &Sim, id: Id, child: &ChildSpec, from_default: bool, script: &Script) {
    let Some(h) = sim.st.borrow().handle.clone() else { return };
    if sim.st.borrow().srcs.contains_key(&id) {
        return;
    }
    let rets = Rc::new(RefCell::new(Vec::new()));
    let inproc = Rc::new(RefCell::new(Vec::new()));
    let parent_ret = Rc::new(Cell::new(None));
    let (tr, children, current) = if from_default {
        (TransientSource::default(), vec![], None)
    } else {
        let (c, m) = make_child(sim, child, 0, id, 0);
        (TransientSource::from(c), vec![m], Some(0))
    };
    let sh = WrapShared::new(id);
    let cbd = Rc::new(Cell::new(0));
    let guard = DropCtr(cbd.clone());
    let disp = Dispatcher::new(Wrap::new(TrParent { tr, rets: rets.clone(), inproc: inproc.clone(), parent_ret: parent_ret.clone() }, sh.clone()), move |child_no: u32, _, tag: &mut Tag| {
        let _g = &guard;
        on_child_event(id, child_no, tag);
    });
    let mut src = new_src(id, script, K::Trans(TransK { disp: Some(disp.clone()), children, current, child_disabled: false, pending_remove: false, pending_replace: None, rets, rets_checked: 0, inproc, arm_new_register_fail: false, parent_ret, gave_up: false }), sh, cbd);
    src.kept = true;
    let r = guarded(sim, "register_dispatcher", || h.register_dispatcher(disp).map_err(|e| e.to_string()));
    if let Some(r) = r {
        finish_insert(sim, id, src, r, false);
        check(sim, id, "insert");
    }
}

fn on_child_event(id: Id, child_no: u32, tag: &mut Tag) {
    let sim = cur();
    sim.trace(|| format!("   cb transient {} child {}", id, child_no));
    {
        // an eager child answers an event collected before its parent was disabled earlier in
        // this dispatch: that it calls back at all is its own business (C07 names the sources'
        // forgetting their token as the mechanism), but what it answers still goes through the
        // wrapper, which only ever returns Continue or Reregister
        let mut st = sim.st.borrow_mut();
        if let Some(s) = st.srcs.get_mut(&id) {
            let stale = s.inserted && !s.enabled && s.excused && s.in_processing > 0 && !s.indeterminate;
            if let K::Trans(t) = &mut s.k {
                let eager = t.children.iter().any(|c| c.log.no == child_no && c.eager);
                if stale && eager {
                    s.indeterminate = true;
                    t.gave_up = true;
                    let log = t.children.iter().find(|c| c.log.no == child_no).map(|c| c.log.clone());
                    drop(st);
                    sim.probe("eager_child_answered_while_parent_disabled");
                    let ret = crate::cb::run_script(&sim, id);
                    if let Some(l) = log {
                        l.next_ret.set(match ret {
                            Ret::Reregister => Some(PostAction::Reregister),
                            Ret::Disable | Ret::DisableBoth => Some(PostAction::Disable),
                            Ret::Remove => Some(PostAction::Remove),
                            _ => None,
                        });
                    }
                    return;
                }
            }
        }
    }
    if !crate::cb::common(&sim, id, tag) {
        return;
    }
    let ret = {
        let st = sim.st.borrow();
        let s = st.srcs.get(&id).unwrap();
        if let K::Trans(t) = &s.k {
            let cur_no = t.current.map(|i| t.children[i].log.no);
            if cur_no != Some(child_no) || t.child_disabled && !s.excused {
                let d = format!("transient parent {} forwarded an event of child {} but its current child is {:?} (disabled={})", id, child_no, cur_no, t.child_disabled);
                drop(st);
                sim.violate("transient.event_from_wrong_child", vec![], d);
                return;
            }
        }
        drop(st);
        crate::cb::run_script(&sim, id)
    };
    // the scripted return value becomes the child's post action
    let pa = match ret {
        Ret::Reregister => Some(PostAction::Reregister),
        Ret::Disable | Ret::DisableBoth => Some(PostAction::Disable),
        Ret::Remove => Some(PostAction::Remove),
        _ => None,
    };
    let mut st = sim.st.borrow_mut();
    if let Some(K::Trans(t)) = st.srcs.get_mut(&id).map(|s| &mut s.k) {
        if ret == Ret::DisableBoth && t.current.is_some() && t.inproc.borrow().is_empty() {
            t.parent_ret.set(Some(PostAction::Disable));
        }
        if let Some(i) = t.current {
            t.children[i].log.next_ret.set(pa);
            match pa {
                Some(PostAction::Disable) => {
                    t.child_disabled = true;
                    t.children[i].log.ever_disabled.set(true);
                }
                Some(PostAction::Remove) => t.pending_remove = true,
                _ => {}
            }
        }
    }
}

/// Model: a (re)registration of the parent just happened (kind 0 = register, 1 = reregister,
/// 2 = unregister). Applies pending remove/replace the way the documented protocol says.
pub fn parent_registration(t: &mut TransK, kind: u8) {
    if kind != 2 {
        if let Some(n) = t.pending_replace.take() {
            t.current = Some(n);
            t.child_disabled = false;
            t.pending_remove = false;
        } else if t.pending_remove {
            t.current = None;
            t.pending_remove = false;
            t.child_disabled = false;
        }
    } else if let Some(n) = t.pending_replace.take() {
        // unregister with a pending replace: the old child is dropped, the new one is current
        t.current = Some(n);
        t.pending_remove = false;
        t.child_disabled = false;
    } else if t.pending_remove {
        t.current = None;
        t.pending_remove = false;
        t.child_disabled = false;
    }
    if kind == 0 {
        t.child_disabled = false;
    }
}

/// The C18 oracle proper: every child's registration log against the model.
pub fn check(sim: &Sim, id: Id, when: &'static str) {
    let st = sim.st.borrow();
    let Some(s) = st.srcs.get(&id) else { return };
    let K::Trans(t) = &s.k else { return };
    if s.in_processing > 0 {
        return;
    }
    if s.indeterminate {
        // after a failure inside the wrapper's own (un)registration little is promised, but a
        // child is still never dropped while it is registered, and a replacement whose
        // installation failed is still there for the next attempt
        let mut viol: Option<(&'static str, Vec<String>, String)> = None;
        if s.inserted && st.loop_alive && !t.gave_up && t.children.iter().any(|c| c.log.fail_fired.get()) {
            for c in t.children.iter() {
                if c.log.dropped_registered.get() && !c.log.reported.get() {
                    c.log.reported.set(true);
                    viol = Some(("transient.dropped_registered", vec!["after_failure".into()], format!("child {} of transient parent {} was dropped while still registered (after a failed (un)registration)", c.log.no, id)));
                    break;
                }
            }
            if viol.is_none() {
                if let Some(n) = t.pending_replace {
                    let c = &t.children[n];
                    if c.log.dropped.get() > 0 && !c.log.reported.get() {
                        c.log.reported.set(true);
                        viol = Some(("transient.child_not_dropped", vec!["replacement_lost".into()], format!("the replacement child {} of transient parent {} was dropped by the re-registration that failed to install it", c.log.no, id)));
                    }
                }
            }
        }
        let evaluated = s.inserted && st.loop_alive && !t.gave_up && t.children.iter().any(|c| c.log.fail_fired.get());
        if viol.is_none() {
            // whatever state the wrapper is in, it filters what its child answers
            for r in t.rets.borrow().iter() {
                if !matches!(r, PostAction::Continue | PostAction::Reregister) {
                    viol = Some(("transient.bad_post_action", vec![], format!("TransientSource of parent {} returned {:?}", id, r)));
                }
            }
        }
        drop(st);
        if evaluated {
            // once, right after the operation that failed: what later operations do to a
            // source in this state (enable of an enabled parent, ...) is outside every protocol
            if let Some(K::Trans(t)) = sim.st.borrow_mut().srcs.get_mut(&id).map(|s| &mut s.k) {
                t.gave_up = true;
            }
        }
        if let Some((r, f, d)) = viol {
            sim.violate(r, f, d);
        } else if evaluated {
            sim.rule_ok(&["C18", "C15"], 181);
        }
        return;
    }
    let parent_registered = s.inserted && s.enabled;
    let mut viol: Option<(&'static str, Vec<String>, String)> = None;
    for (i, c) in t.children.iter().enumerate() {
        let is_current = t.current == Some(i);
        let pending_new = t.pending_replace == Some(i);
        let should = parent_registered && is_current && !t.child_disabled;
        let l = &c.log;
        if l.double_register.get() {
            viol = Some(("transient.double_register", vec![], format!("child {} of transient parent {} was registered while registered", l.no, id)));
        } else if l.double_unregister.get() {
            viol = Some(("transient.double_unregister", vec![if l.ever_disabled.get() { "child_returned_disable_earlier".into() } else { "child_never_disabled".into() }], format!("child {} of transient parent {} was unregistered while unregistered", l.no, id)));
        } else if l.dropped_registered.get() {
            viol = Some(("transient.dropped_registered", vec![], format!("child {} of transient parent {} was dropped while still registered", l.no, id)));
        } else if l.dropped.get() > 1 {
            viol = Some(("transient.dropped_registered", vec!["twice".into()], format!("child {} of transient parent {} was dropped twice", l.no, id)));
        } else if !pending_new && l.dropped.get() == 0 && l.registered.get() != should && !(t.pending_remove && is_current) {
            viol = Some((
                "transient.registration_mismatch",
                vec![if l.registered.get() { "registered".into() } else { "unregistered".into() }, when.into()],
                format!("child {} of transient parent {} is {}registered; it is {}the current kept child of a {}registered parent ({})", l.no, id, if l.registered.get() { "" } else { "not " }, if is_current && !t.child_disabled { "" } else { "not " }, if parent_registered { "" } else { "un" }, when),
            ));
        } else if !is_current && !pending_new && l.dropped.get() == 0 && !(t.pending_remove) && s.inserted {
            // a removed / replaced child is dropped by the re-registration that retires it
            viol = Some(("transient.child_not_dropped", vec![], format!("child {} of transient parent {} is no longer current but was not dropped", l.no, id)));
        }
        if viol.is_some() {
            break;
        }
    }
    if viol.is_none() {
        for r in t.rets.borrow().iter().skip(t.rets_checked) {
            if !matches!(r, PostAction::Continue | PostAction::Reregister) {
                viol = Some(("transient.bad_post_action", vec![], format!("TransientSource of parent {} returned {:?}", id, r)));
            }
        }
    }
    drop(st);
    match viol {
        Some((r, f, d)) => sim.violate(r, f, d),
        None => sim.rule_ok(&["C18"], 180),
    }
}

pub fn check_all(sim: &Sim, when: &'static str) {
    let ids: Vec<Id> = sim.st.borrow().srcs.iter().filter(|(_, s)| matches!(s.k, K::Trans(_))).map(|(i, _)| *i).collect();
    for id in ids {
        check(sim, id, when);
        if sim.is_dead() {
            return;
        }
    }
}

/// replace(new); update() fails at the new child's register(); update() again. The old child
/// has been unregistered exactly once by then, the new one is registered, both update results
/// are what they have to be. The source counts as indeterminate afterwards (a scripted failure
/// hit it); this operation carries its own oracle.
pub fn replace_fail_retry(sim: &Sim, id: Id, spec: &ChildSpec) {
    if sim.hk.borrow().in_dispatch {
        return;
    }
    let Some(handle) = sim.st.borrow().handle.clone() else { return };
    let (disp, old_log, no, token) = {
        let st = sim.st.borrow();
        let Some(s) = st.srcs.get(&id) else { return };
        let K::Trans(t) = &s.k else { return };
        if !(s.inserted && s.enabled) || s.indeterminate || s.in_processing > 0 || t.gave_up || !s.sh.fail.borrow().is_empty() {
            return;
        }
        if t.pending_replace.is_some() || t.pending_remove || t.child_disabled || !t.inproc.borrow().is_empty() {
            return;
        }
        let Some(cur) = t.current else { return };
        // no other scripted failure is waiting
        if !t.children[cur].log.registered.get() || t.children[cur].log.fail.get() != 0 || t.arm_new_register_fail {
            return;
        }
        let (Some(d), Some(tok)) = (t.disp.clone(), s.token) else { return };
        (d, t.children[cur].log.clone(), t.children.len() as u32, tok)
    };
    let (c, m) = make_child(sim, spec, no, id, 1);
    let new_log = m.log.clone();
    // an injected poller fault landing inside this operation makes its outcome anybody's guess
    let injected_before = sim.hk.borrow().faults_fired.len();
    let injected = |sim: &Sim| sim.hk.borrow().faults_fired.len() != injected_before;
    let unreg_before = old_log.unreg.get();
    if guarded(sim, "replace", || disp.as_source_mut().inner.tr.replace(c)).is_none() {
        return;
    }
    {
        let mut st = sim.st.borrow_mut();
        if let Some(s) = st.srcs.get_mut(&id) {
            // from here on only this operation's own oracle speaks about the source
            s.indeterminate = true;
            if let K::Trans(t) = &mut s.k {
                t.children.push(m);
                t.pending_replace = Some(t.children.len() - 1);
                t.gave_up = true;
            }
        }
    }
    drop(disp);
    let first = guarded(sim, "update", || handle.update(&token).map_err(|e| e.to_string()));
    let Some(first) = first else { return };
    if injected(sim) {
        return;
    }
    let viol = |sim: &Sim, what: &str, d: String| sim.violate("transient.failed_replacement_retry", vec![what.to_string()], d);
    if first.is_ok() {
        // the scripted failure did not fire (the wrapper did not try to register the new child)
        if !new_log.fail_fired.get() {
            return viol(sim, "replacement_not_attempted", format!("update() after replace() on transient parent {} did not try to register the new child", id));
        }
    }
    if first.is_ok() && new_log.fail_fired.get() {
        return viol(sim, "error_swallowed", format!("update() of transient parent {} returned Ok although the registration of the replacement child failed", id));
    }
    let second = guarded(sim, "update", || handle.update(&token).map_err(|e| e.to_string()));
    let Some(second) = second else { return };
    if injected(sim) {
        return;
    }
    sim.probe("transient_failed_replacement_retried");
    if let Err(e) = &second {
        return viol(sim, "retry_failed", format!("transient parent {}: the update() that failed at the replacement child's registration cannot be retried: {}", id, e));
    }
    if old_log.double_unregister.get() || old_log.unreg.get() != unreg_before + 1 {
        return viol(sim, "old_child_unregistered_again", format!("transient parent {}: across a failed replacement and its retry the old child was unregistered {} times", id, old_log.unreg.get() - unreg_before));
    }
    if !new_log.registered.get() || new_log.reg.get() != 1 {
        return viol(sim, "replacement_not_installed", format!("transient parent {}: after the successful retry the replacement child is registered={} (register() calls: {})", id, new_log.registered.get(), new_log.reg.get()));
    }
    if old_log.dropped_registered.get() {
        return viol(sim, "old_child_dropped_registered", format!("transient parent {}: the replaced child was dropped while registered", id));
    }
    {
        let mut st = sim.st.borrow_mut();
        if let Some(K::Trans(t)) = st.srcs.get_mut(&id).map(|s| &mut s.k) {
            if let Some(n) = t.pending_replace.take() {
                t.current = Some(n);
            }
        }
    }
    sim.rule_ok(&["C15", "C18"], 182);
}

/// remove() / replace() / map() from outside the loop, followed (protocol) by update()
pub fn tr_op(sim: &Sim, id: Id, op: &Op, in_cb: bool, lazy: bool) {
    let Some((disp, inserted, enabled, in_proc)) = ({
        let st = sim.st.borrow();
        st.srcs.get(&id).and_then(|s| match &s.k {
            K::Trans(t) => t.disp.clone().map(|d| (d, s.inserted, s.enabled, s.in_processing > 0)),
            _ => None,
        })
    }) else {
        return;
    };
    if sim.st.borrow().srcs.get(&id).map(|s| s.indeterminate).unwrap_or(true) {
        return;
    }
    if in_proc {
        // from the parent's own callback: queued, applied by the parent inside this
        // process_events call, which then returns Reregister
        let mut st = sim.st.borrow_mut();
        let Some(K::Trans(t)) = st.srcs.get_mut(&id).map(|s| &mut s.k) else { return };
        if t.pending_replace.is_some() || t.pending_remove || !t.inproc.borrow().is_empty() || t.current.is_none() {
            return; // one change per re-registration
        }
        match op {
            Op::TrAssign(..) => return,
            Op::TrRemove(_) => {
                t.inproc.borrow_mut().push(InProc::Remove);
                t.pending_remove = true;
            }
            Op::TrReplace(_, spec) => {
                let no = t.children.len() as u32;
                let fail = std::mem::replace(&mut t.arm_new_register_fail, false) as u8;
                drop(st);
                let (c, m) = make_child(sim, spec, no, id, fail);
                let mut st = sim.st.borrow_mut();
                let Some(K::Trans(t)) = st.srcs.get_mut(&id).map(|s| &mut s.k) else { return };
                t.children.push(m);
                t.pending_replace = Some(t.children.len() - 1);
                t.inproc.borrow_mut().push(InProc::Replace(c));
            }
            _ => {}
        }
        sim.probe("transient_change_during_processing");
        return;
    }
    match op {
        Op::TrMap(_) => {
            let r = guarded(sim, "map", || disp.as_source_mut().inner.tr.map(|c| c.log.no));
            let empty = guarded(sim, "is_none", || disp.as_source_ref().inner.tr.is_none());
            let st = sim.st.borrow();
            if let (Some(e), Some(K::Trans(t))) = (empty, st.srcs.get(&id).filter(|s| s.inserted && !s.indeterminate).map(|s| &s.k)) {
                // empty means: holds no source at all - a child whose removal is still to be
                // carried out by the next re-registration is still held
                let expect_empty = t.current.is_none() && t.pending_replace.is_none();
                if e != expect_empty {
                    let d = format!("is_none() on transient parent {} returned {}, but the wrapper {} (current child {:?}, removal pending: {})", id, e, if expect_empty { "holds nothing" } else { "still holds a source" }, t.current, t.pending_remove);
                    drop(st);
                    sim.violate("transient.map", vec!["is_none".into()], d);
                    return;
                }
            }
            if let (Some(r), Some(K::Trans(t))) = (r, st.srcs.get(&id).map(|s| &s.k)) {
                // map sees the child that is (or is about to become) current
                let expect = if t.pending_remove && t.pending_replace.is_none() { None } else { t.pending_replace.or(t.current).map(|i| t.children[i].log.no) };
                if r != expect {
                    let d = format!("map() on transient parent {} saw child {:?}, expected {:?}", id, r, expect);
                    drop(st);
                    sim.violate("transient.map", vec![], d);
                    return;
                }
            }
        }
        Op::TrRemove(_) => {
            if guarded(sim, "remove", || disp.as_source_mut().inner.tr.remove()).is_none() {
                return;
            }
            let mut st = sim.st.borrow_mut();
            if let Some(K::Trans(t)) = st.srcs.get_mut(&id).map(|s| &mut s.k) {
                if t.current.is_some() || t.pending_replace.is_some() {
                    t.pending_remove = true;
                    if let Some(n) = t.pending_replace.take() {
                        // remove() on a Replace state removes the *new* source; the old one leaks
                        // its registration per the documentation: outside the protocol, give up
                        let _ = n;
                        t.gave_up = true;
                        drop(st);
                        if let Some(s) = sim.st.borrow_mut().srcs.get_mut(&id) {
                            s.indeterminate = true;
                        }
                        return;
                    }
                }
            }
        }
        Op::TrReplace(_, spec) => {
            let no = sim.st.borrow().srcs.get(&id).map(|s| if let K::Trans(t) = &s.k { t.children.len() as u32 } else { 0 }).unwrap_or(0);
            let fail = match sim.st.borrow_mut().srcs.get_mut(&id).map(|s| &mut s.k) {
                Some(K::Trans(t)) => std::mem::replace(&mut t.arm_new_register_fail, false) as u8,
                _ => 0,
            };
            let (c, m) = make_child(sim, spec, no, id, fail);
            let had_pending = {
                let st = sim.st.borrow();
                matches!(st.srcs.get(&id).map(|s| &s.k), Some(K::Trans(t)) if t.pending_replace.is_some() || t.pending_remove)
            };
            if had_pending {
                return; // one change per re-registration (protocol)
            }
            if guarded(sim, "replace", || disp.as_source_mut().inner.tr.replace(c)).is_none() {
                return;
            }
            let mut st = sim.st.borrow_mut();
            if let Some(K::Trans(t)) = st.srcs.get_mut(&id).map(|s| &mut s.k) {
                t.children.push(m);
                let n = t.children.len() - 1;
                if t.current.is_some() {
                    t.pending_replace = Some(n);
                } else {
                    // replace() on an empty wrapper does nothing (documented by replace_state)
                    t.children[n].log.dropped.set(0);
                    t.pending_replace = None;
                    t.children.pop();
                }
            }
        }
        Op::TrAssign(_, spec, _) => {
            // only into an empty slot with nothing pending
            let (ok, no) = {
                let st = sim.st.borrow();
                match st.srcs.get(&id).map(|s| &s.k) {
                    Some(K::Trans(t)) => (t.current.is_none() && t.pending_replace.is_none() && !t.pending_remove && t.inproc.borrow().is_empty() && !t.arm_new_register_fail, t.children.len() as u32),
                    _ => (false, 0),
                }
            };
            if !ok {
                return;
            }
            let (c, m) = make_child(sim, spec, no, id, 0);
            if guarded(sim, "assign", || disp.as_source_mut().inner.tr = TransientSource::from(c)).is_none() {
                return;
            }
            let mut st = sim.st.borrow_mut();
            if let Some(K::Trans(t)) = st.srcs.get_mut(&id).map(|s| &mut s.k) {
                t.children.push(m);
                t.pending_replace = Some(t.children.len() - 1);
            }
            drop(st);
            sim.probe("transient_slot_filled_late");
        }
        _ => {}
    }
    drop(disp);
    // protocol: a re-registration is requested after each change - right away, or (lazy) by
    // whatever operation on the parent comes next
    if lazy {
        sim.probe("transient_lazy_change");
        return;
    }
    if inserted && enabled && !matches!(op, Op::TrMap(_)) {
        crate::ops::exec_op(sim, &Op::Update(id), in_cb);
    }
}

/// Arm a scripted failure: what = 1: the register() of the next replacement child fails;
/// what = 2: the next unregister() of the current child fails.
pub fn arm_child_failure(sim: &Sim, id: Id, what: u8) {
    let mut st = sim.st.borrow_mut();
    let Some(s) = st.srcs.get_mut(&id) else { return };
    if s.indeterminate || !s.inserted {
        return;
    }
    let K::Trans(t) = &mut s.k else { return };
    if what == 1 {
        t.arm_new_register_fail = true;
    } else if let Some(i) = t.current {
        let l = &t.children[i].log;
        l.fail.set(l.fail.get() | 2);
    }
}

pub fn peer_write(sim: &Sim, id: Id, n: u32) {
    let st = sim.st.borrow();
    let Some(K::Trans(t)) = st.srcs.get(&id).map(|s| &s.k) else { return };
    let Some(i) = t.current else { return };
    if let Some(p) = &t.children[i].peer {
        let data = vec![7u8; n as usize];
        os::write(p.as_raw_fd(), &data);
    }
}

/// expected kernel entries of the transient children
pub fn expected_entries(s: &Src, t: &TransK, out: &mut Vec<(u64, u32, Option<i32>)>) {
    if !(s.inserted && s.enabled) || t.child_disabled {
        return;
    }
    if let (Some(i), Some(k)) = (t.current, s.reg_key) {
        if let Some(fd) = &t.children[i].fd {
            out.push((k as u64, crate::table::mask_of(1, 0, true), Some(fd.0.as_raw_fd())));
        }
    }
}
