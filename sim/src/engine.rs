//! Execution of one program against one real EventLoop and, in lock-step, the model.
//! This file: the run loop, the hook bodies (wait / batch / event scope / process_events
//! scope) and the per-dispatch and per-step oracles.

use std::collections::BTreeMap;
use std::io;
use std::panic::{catch_unwind, AssertUnwindSafe};
use std::rc::Rc;
use std::time::Duration;

use calloop::verif::BatchEvent;
use calloop::{EventLoop, PostAction};

use crate::model::*;
use crate::os;
use crate::program::*;
use crate::sim::*;
use crate::wrap::LastRet;

#[derive(Default, Clone, Debug)]
pub struct RunStats {
    pub steps: u64,
    pub ops: u64,
    pub dispatches: u64,
    pub callbacks: u64,
    pub sim_ns: u64,
    pub waits_slept: u64,
    pub faults_fired: u64,
    pub env_fired: u64,
}

pub struct RunResult {
    pub violations: Vec<Violation>,
    pub trace: Vec<String>,
    pub fp: BTreeMap<&'static str, (u64, u32)>,
    pub probes: BTreeMap<&'static str, u64>,
    pub points: [u64; N_SITES],
    pub stats: RunStats,
    pub faults_fired: Vec<(u8, i32)>,
    pub op_counts: BTreeMap<&'static str, u64>,
    /// fault sites passed: [seam calls, process_events calls, waits]
    pub sites: [u32; 3],
    pub c08_cells: BTreeMap<String, u64>,
}

pub struct Ctx<'a> {
    pub lp: &'a mut Option<EventLoop<'static, Tag>>,
}

/// Run a program. Pure function of (program, code under test).
pub fn run(p: &Program, record: bool) -> RunResult {
    let sim = Sim::new(0x5157_0000 ^ p.seed);
    install(Some(sim.clone()));
    let mut stats = RunStats::default();
    let mut op_counts: BTreeMap<&'static str, u64> = BTreeMap::new();
    let mut lp: Option<EventLoop<'static, Tag>> = None;
    {
        let mut hk = sim.hk.borrow_mut();
        hk.record = record;
        hk.perm_seed = p.perm_seed;
        hk.faults = p.faults.clone();
    }
    let created = catch_unwind(AssertUnwindSafe(|| EventLoop::<Tag>::try_new()));
    match created {
        Ok(Ok(l)) => {
            let epfd = std::os::fd::AsRawFd::as_raw_fd(&l);
            {
                let mut hk = sim.hk.borrow_mut();
                hk.epfd = epfd;
                hk.notifier_fd = os::find_notifier(epfd).unwrap_or(-1);
            }
            {
                let mut st = sim.st.borrow_mut();
                st.handle = Some(l.handle());
                st.signal = Some(l.get_signal());
                st.loop_alive = true;
                let mut env = p.env.clone();
                env.sort_by_key(|e| e.at);
                st.env = env.into();
            }
            crate::sig::begin_run(&sim);
            lp = Some(l);
        }
        _ => {
            sim.violate("op.panic", vec!["try_new".into()], "EventLoop::try_new failed".into());
        }
    }

    for (i, op) in p.steps.iter().enumerate() {
        if sim.is_dead() {
            break;
        }
        sim.hk.borrow_mut().step = i;
        stats.steps += 1;
        sim.trace(|| format!("step {} {}", i, brief(op)));
        *op_counts.entry(op.name()).or_insert(0) += 1;
        match op {
            Op::Dispatch(t) => {
                stats.dispatches += 1;
                do_dispatch(&sim, &mut lp, *t);
            }
            Op::DropLoop => {
                // (an adapter is a strong handle on the loop: with one alive the loop would not
                // really go away, which the model does not follow in mid-history)
                let blocked = {
                    let st = sim.st.borrow();
                    st.adapters.values().any(|a| crate::adapter::alive(a.state)) || !st.tasks.is_empty()
                };
                if !blocked {
                    do_drop_loop(&sim, &mut lp);
                }
            }
            Op::NewLoop => {
                do_new_loop(&sim, &mut lp);
            }
            Op::Run { timeout, iters } => {
                stats.dispatches += *iters as u64;
                do_run(&sim, &mut lp, *timeout, *iters);
            }
            Op::BlockOn { pendings, self_wake, max_iters } => {
                stats.dispatches += *max_iters as u64;
                do_block_on(&sim, &mut lp, *pendings, *self_wake, *max_iters);
            }
            _ => crate::ops::exec_op(&sim, op, false),
        }
        if sim.is_dead() {
            break;
        }
        step_invariants(&sim, p, i);
    }
    crate::adapter::take_back_given(&sim);
    // an adapter living inside a future of the loop's own executor is the documented
    // reference cycle: break it (remove the executors) so that the run leaks nothing
    let cyc: Vec<calloop::RegistrationToken> = {
        let st = sim.st.borrow();
        if st.adapters.values().any(|a| matches!(a.state, crate::adapter::AdState::InTask(_))) {
            st.srcs.values().filter(|s| matches!(s.k, K::Exec(_)) && s.inserted).filter_map(|s| s.token).collect()
        } else {
            vec![]
        }
    };
    if !cyc.is_empty() {
        let h = sim.st.borrow().handle.clone();
        if let Some(h) = h {
            let _ = catch_unwind(AssertUnwindSafe(|| {
                for t in cyc {
                    h.remove(t);
                }
            }));
        }
    }
    // teardown: everything the loop owned must be released exactly once
    if !sim.is_dead() {
        do_drop_loop(&sim, &mut lp);
        final_release_check(&sim);
    }
    // drop everything of this run before the next one starts
    drop(lp);
    {
        let old = std::mem::take(&mut *sim.st.borrow_mut());
        drop(old);
    }
    install(None);

    let hk = std::mem::take(&mut *sim.hk.borrow_mut());
    stats.sim_ns = sim.clock.get();
    stats.faults_fired = hk.faults_fired.len() as u64;
    stats.waits_slept = hk.waits.iter().filter(|w| w.slept).count() as u64;
    stats.callbacks = *hk.probes.get("callbacks").unwrap_or(&0);
    stats.env_fired = *hk.probes.get("env_fired").unwrap_or(&0);
    stats.ops = *hk.probes.get("ops").unwrap_or(&0);
    RunResult {
        violations: hk.violations,
        trace: hk.trace,
        fp: hk.fp.iter().map(|(k, v)| (*k, (v.0 .0, v.1))).collect(),
        probes: hk.probes,
        points: hk.points,
        stats,
        faults_fired: hk.faults_fired,
        op_counts,
        sites: [hk.seam_calls[0], hk.pe_calls, hk.wait_calls],
        c08_cells: hk.c08_cells,
    }
}

pub fn brief(op: &Op) -> String {
    let mut c = op.clone();
    if let Some(s) = c.script_mut() {
        let n = s.len();
        s.clear();
        return format!("{:?} [script {} entries]", c, n);
    }
    format!("{:?}", c)
}

pub fn timeout_of(t: Timeout) -> Option<Duration> {
    match t {
        Timeout::Zero => Some(Duration::ZERO),
        Timeout::Some(ns) => Some(Duration::from_nanos(ns)),
        Timeout::None => None,
        Timeout::Max => Some(Duration::MAX),
    }
}

/// A second loop, after the first one has been dropped. Only for histories without adapters and
/// executor tasks (both can hold the old loop alive, which the model does not follow).
fn do_new_loop(sim: &Rc<Sim>, lp: &mut Option<EventLoop<'static, Tag>>) {
    if lp.is_some() || sim.st.borrow().loop_alive {
        return;
    }
    {
        let st = sim.st.borrow();
        if !st.adapters.is_empty() || !st.tasks.is_empty() || st.srcs.values().any(|s| matches!(s.k, K::Exec(_) | K::Stream(_) | K::Sig(_) | K::Comp(_) | K::Trans(_)) || s.indeterminate) {
            return;
        }
    }
    let created = catch_unwind(AssertUnwindSafe(|| EventLoop::<Tag>::try_new()));
    let Ok(Ok(l)) = created else {
        sim.violate("op.panic", vec!["try_new".into()], "EventLoop::try_new failed".into());
        return;
    };
    let epfd = std::os::fd::AsRawFd::as_raw_fd(&l);
    {
        let mut hk = sim.hk.borrow_mut();
        hk.epfd = epfd;
        hk.notifier_fd = os::find_notifier(epfd).unwrap_or(-1);
    }
    let mut st = sim.st.borrow_mut();
    st.handle = Some(l.handle());
    st.signal = Some(l.get_signal());
    st.loop_alive = true;
    // tokens of the first loop mean nothing to this one; idles of the first loop are gone
    for s in st.srcs.values_mut() {
        s.old_loop = true;
        s.reg_key = None;
    }
    for i in st.idles.values_mut() {
        if i.state == IdleState::Pending {
            i.state = IdleState::Cancelled;
        }
        i.handle = None;
    }
    st.idle_queue.clear();
    st.extra_table.clear();
    st.leaked_keys.clear();
    st.kept_rejected.clear();
    st.issued_keys.clear();
    drop(st);
    *lp = Some(l);
    sim.probe("second_loop");
}

fn do_drop_loop(sim: &Rc<Sim>, lp: &mut Option<EventLoop<'static, Tag>>) {
    let (h, s) = {
        let mut st = sim.st.borrow_mut();
        st.loop_alive = false;
        (st.handle.take(), st.signal.take())
    };
    let l = lp.take();
    let r = catch_unwind(AssertUnwindSafe(move || {
        drop(h);
        drop(s);
        drop(l);
    }));
    if r.is_err() {
        sim.violate("op.panic", vec!["drop_loop".into()], "panic while dropping the loop".into());
    }
    let mut st = sim.st.borrow_mut();
    for s in st.srcs.values_mut() {
        s.inserted = false;
        s.enabled = false;
    }
    st.key_to_id.clear();
    st.wakeup_outstanding = false;
    st.stop_requested = false;
}

// ------------------------------------------------------------------------------------------
// dispatch
// ------------------------------------------------------------------------------------------

/// per-dispatch state reset (hook side and model side)
fn pre_dispatch(sim: &Sim) {
    {
        let mut hk = sim.hk.borrow_mut();
        hk.dispatch_no += 1;
        hk.in_dispatch = true;
        hk.expected_err = false;
        hk.first_failure = None;
        hk.faults_at_dispatch_start = hk.faults_fired.len();
        hk.waits.clear();
        hk.batch.clear();
        hk.batch_n_fd = 0;
    }
    let mut st = sim.st.borrow_mut();
    st.must.clear();
    st.idle_phase = false;
    st.idle_expected.clear();
    st.timer_fire_deadlines.clear();
    st.dispatch_error_seen = false;
    st.hook_time = 0;
    for s in st.srcs.values_mut() {
        s.cb_this_dispatch = 0;
        s.pe_this_dispatch = 0;
        s.excused = false;
        s.rereg_at_start = s.sh.rereg.get();
        s.errored_this_dispatch = false;
    }
    crate::life::dispatch_start(&mut st);
    crate::composite::dispatch_start(&mut st);
}

fn do_dispatch(sim: &Rc<Sim>, lp: &mut Option<EventLoop<'static, Tag>>, t: Timeout) {
    let Some(l) = lp.as_mut() else { return };
    let t_start = sim.now_ns();
    pre_dispatch(sim);
    let mut tag = Tag(sim.tag);
    let r = catch_unwind(AssertUnwindSafe(|| l.dispatch(timeout_of(t), &mut tag)));
    sim.hk.borrow_mut().in_dispatch = false;
    let t_end = sim.now_ns();
    match r {
        Err(p) => {
            let msg = panic_msg(&p);
            let life = sim.st.borrow().srcs.values().any(|s| matches!(s.k, K::Life(_)));
            let extra: &[&str] = if life && msg.contains("unreachable") { &["C14"] } else { &[] };
            sim.violate_props("dispatch.panic", extra, vec![], format!("dispatch panicked: {}", msg));
        }
        Ok(res) => {
            sim.trace(|| format!("  dispatch -> {} t={}..{}", if res.is_ok() { "Ok".to_string() } else { format!("Err({})", res.as_ref().unwrap_err()) }, t_start, t_end));
            after_dispatch(sim, t, res.is_ok(), res.err().map(|e| e.to_string()), t_start, t_end);
        }
    }
}

/// EventLoop::run: every iteration is checked like a dispatch of its own (from the
/// per-iteration closure); the closure requests the stop after `iters` iterations.
fn do_run(sim: &Rc<Sim>, lp: &mut Option<EventLoop<'static, Tag>>, t: Timeout, iters: u32) {
    let Some(l) = lp.as_mut() else { return };
    let Some(signal) = sim.st.borrow().signal.clone() else { return };
    let iters = iters.clamp(1, 6);
    let t_start = std::cell::Cell::new(sim.now_ns());
    let count = std::cell::Cell::new(0u32);
    // run() forgets a stop requested before it started
    sim.st.borrow_mut().stop_requested = false;
    let stopped_at: std::cell::Cell<Option<u32>> = std::cell::Cell::new(None);
    pre_dispatch(sim);
    let mut tag = Tag(sim.tag);
    let sim2 = sim.clone();
    let r = catch_unwind(AssertUnwindSafe(|| {
        l.run(timeout_of(t), &mut tag, |_| {
            sim2.hk.borrow_mut().in_dispatch = false;
            let now = sim2.now_ns();
            sim2.trace(|| format!("  run iteration {} done t={}..{}", count.get(), t_start.get(), now));
            after_dispatch(&sim2, t, true, None, t_start.get(), now);
            count.set(count.get() + 1);
            if sim2.st.borrow().stop_requested && stopped_at.get().is_none() {
                // the program asked for the stop during this iteration: run() returns now
                stopped_at.set(Some(count.get()));
            }
            if stopped_at.get().is_some() {
                // (nothing more to prepare)
            } else if count.get() >= iters || sim2.is_dead() {
                signal.stop();
            } else {
                t_start.set(now);
                pre_dispatch(&sim2);
            }
        })
    }));
    sim.hk.borrow_mut().in_dispatch = false;
    match r {
        Err(p) => {
            sim.violate("dispatch.panic", vec!["run".into()], format!("run() panicked: {}", panic_msg(&p)));
        }
        Ok(Ok(())) => {
            let want = stopped_at.get().unwrap_or(iters);
            if count.get() != want && !sim.is_dead() {
                sim.violate("run.iterations", vec![], format!("run() returned Ok after {} iterations although stop() was requested in iteration {}", count.get(), want));
            } else {
                sim.rule_ok(&["C11"], 111);
            }
        }
        Ok(Err(e)) => {
            sim.trace(|| format!("  run -> Err({})", e));
            after_dispatch(sim, t, false, Some(e.to_string()), t_start.get(), sim.now_ns());
        }
    }
}

/// EventLoop::block_on with a scripted future; every iteration is checked like a dispatch.
fn do_block_on(sim: &Rc<Sim>, lp: &mut Option<EventLoop<'static, Tag>>, pendings: u32, self_wake: bool, max_iters: u32) {
    struct F {
        left: u32,
        self_wake: bool,
        polls: Rc<std::cell::Cell<u32>>,
    }
    impl std::future::Future for F {
        type Output = u32;
        fn poll(mut self: std::pin::Pin<&mut Self>, cx: &mut std::task::Context<'_>) -> std::task::Poll<u32> {
            self.polls.set(self.polls.get() + 1);
            if self.left == 0 {
                return std::task::Poll::Ready(42);
            }
            self.left -= 1;
            if self.self_wake {
                // the yield_now pattern: wake during the poll, return Pending
                cx.waker().wake_by_ref();
            }
            std::task::Poll::Pending
        }
    }
    let Some(l) = lp.as_mut() else { return };
    let Some(signal) = sim.st.borrow().signal.clone() else { return };
    let max_iters = max_iters.clamp(1, 8);
    let polls = Rc::new(std::cell::Cell::new(0u32));
    let fut = F { left: pendings.min(4), self_wake, polls: polls.clone() };
    let t_start = std::cell::Cell::new(sim.now_ns());
    let count = std::cell::Cell::new(0u32);
    let stopped = std::cell::Cell::new(false);
    sim.st.borrow_mut().stop_requested = false;
    pre_dispatch(sim);
    let mut tag = Tag(sim.tag);
    let sim2 = sim.clone();
    let r = catch_unwind(AssertUnwindSafe(|| {
        l.block_on(fut, &mut tag, |_| {
            sim2.hk.borrow_mut().in_dispatch = false;
            let now = sim2.now_ns();
            // block_on waits with no timeout of its own
            after_dispatch(&sim2, Timeout::None, true, None, t_start.get(), now);
            count.set(count.get() + 1);
            if sim2.st.borrow().stop_requested {
                // the program asked for the stop during this iteration
                stopped.set(true);
            } else if count.get() >= max_iters || sim2.is_dead() {
                stopped.set(true);
                signal.stop();
            } else {
                t_start.set(now);
                pre_dispatch(&sim2);
            }
        })
    }));
    sim.hk.borrow_mut().in_dispatch = false;
    match r {
        Err(p) => sim.violate("dispatch.panic", vec!["block_on".into()], format!("block_on() panicked: {}", panic_msg(&p))),
        Ok(Err(e)) => {
            sim.trace(|| format!("  block_on -> Err({})", e));
            after_dispatch(sim, Timeout::None, false, Some(e.to_string()), t_start.get(), sim.now_ns());
        }
        Ok(Ok(out)) => {
            sim.trace(|| format!("  block_on -> {:?} after {} iterations, {} polls", out, count.get(), polls.get()));
            let needed = pendings.min(4) + 1;
            match out {
                Some(42) => {
                    if polls.get() != needed {
                        sim.violate("blockon.result", vec![], format!("block_on returned Some after {} polls, the future needs {}", polls.get(), needed));
                    }
                }
                None => {
                    if !stopped.get() {
                        sim.violate("blockon.result", vec!["none_without_stop".into()], "block_on returned None although stop() was never requested".into());
                    } else if self_wake && polls.get() < needed.min(count.get()) {
                        // a future that wakes itself during every poll is polled once per iteration
                        sim.violate("blockon.lost_wake", vec!["self_wake".into()], format!("the future woke itself during each poll but was polled only {} times in {} iterations", polls.get(), count.get()));
                    }
                }
                Some(x) => sim.violate("blockon.result", vec![], format!("block_on returned Some({})", x)),
            }
            if !sim.is_dead() {
                sim.rule_ok(&["C11"], 112);
            }
        }
    }
}

thread_local! {
    pub static LAST_PANIC_LOC: std::cell::RefCell<String> = const { std::cell::RefCell::new(String::new()) };
}

pub fn panic_msg(p: &Box<dyn std::any::Any + Send>) -> String {
    let m = if let Some(s) = p.downcast_ref::<&str>() {
        s.to_string()
    } else if let Some(s) = p.downcast_ref::<String>() {
        s.clone()
    } else {
        "<non-string panic>".into()
    };
    let loc = LAST_PANIC_LOC.with(|l| l.borrow().clone());
    // keep only the path below the repository / crate root so that the text is stable
    let loc = loc.rsplit("/src/").next().map(|s| format!("src/{}", s)).unwrap_or(loc);
    format!("{} (at {})", m, loc)
}

/// Earliest deadline among armed timers (model), None if none.
fn model_next_deadline(st: &St) -> Option<u64> {
    let mut best: Option<u64> = st.hidden_timers.iter().filter(|h| !h.1).map(|h| h.0).min();
    for s in st.srcs.values() {
        if !(s.inserted && s.enabled) {
            continue;
        }
        if let K::Timer(t) = &s.k {
            if t.armed {
                if let Some(d) = t.deadline {
                    best = Some(best.map_or(d, |b| b.min(d)));
                }
            }
        }
    }
    best
}

/// after an Err dispatch the MUST rule only applies if the error came out of event processing
/// (not out of a hook before the wait)
fn flags_err_ok(st: &St) -> bool {
    st.srcs.values().any(|s| s.errored_this_dispatch)
}

fn any_indeterminate_timer(st: &St) -> bool {
    if st.hidden_unknown {
        return true;
    }
    if st.srcs.values().any(|s| matches!(&s.k, K::Comp(k) if k.children.iter().any(|c| matches!(c, crate::composite::ChildM::Timer { .. })))) {
        return true;
    }
    // timers the model does not follow individually: those of indeterminate sources and the
    // timer children of transient wrappers
    st.srcs.values().any(|s| (s.indeterminate && matches!(s.k, K::Timer(_))) || matches!(&s.k, K::Trans(t) if t.children.iter().any(|c| c.is_timer)))
}

fn after_dispatch(sim: &Rc<Sim>, t: Timeout, ok: bool, err: Option<String>, t_start: u64, t_end: u64) {
    if sim.is_dead() {
        return;
    }
    let (waits, expected_err) = {
        let hk = sim.hk.borrow();
        (hk.waits.clone(), hk.expected_err)
    };
    // C15: the error a source returned from its event processing is what the dispatch reports,
    // whatever fails afterwards (applying that source's post action, another source)
    {
        let first = {
            let hk = sim.hk.borrow();
            if hk.faults_fired.len() == hk.faults_at_dispatch_start { hk.first_failure.clone() } else { None }
        };
        if let (Some((true, s1)), Some(e)) = (first, err.as_ref()) {
            if !e.contains(&s1) {
                sim.violate("dispatch.wrong_error_reported", vec![], format!("the first failure of this dispatch was the error `{}` returned by a source's event processing, but dispatch reported `{}`", s1, e));
                return;
            }
            sim.rule_ok(&["C15"], 151);
        }
    }
    if !ok {
        sim.st.borrow_mut().dispatch_error_seen = true;
        sim.st.borrow_mut().any_dispatch_error = true;
        // a source an injected fault left half (un)registered was processed in this dispatch:
        // its own re-registration may fail for that reason
        let half = sim.st.borrow().srcs.values().any(|s| s.indeterminate && s.pe_this_dispatch > 0);
        if half && !expected_err {
            sim.probe("dispatch_err_after_fault_on_source");
        }
        if !expected_err && !half {
            let comp_retired = sim.st.borrow().srcs.values().any(|s| matches!(&s.k, K::Comp(k) if k.child_retired) && s.pe_this_dispatch > 0);
            sim.violate(
                "dispatch.unexpected_error",
                if comp_retired { vec!["composite_child_retired".into()] } else { vec![] },
                format!("dispatch returned an error nobody caused: {}", err.unwrap_or_default()),
            );
            return;
        }
        sim.probe("dispatch_err_expected");
        // idles belong to the first dispatch that returns Ok: a failed one runs none
        if sim.st.borrow().idle_phase {
            sim.violate("idle.in_failed_dispatch", vec![], "idle callbacks ran in a dispatch that returned an error".into());
            return;
        }
    }
    crate::life::after_dispatch(sim, ok, !waits.is_empty());
    if sim.is_dead() {
        return;
    }
    crate::exec::hidden_after_dispatch(sim, ok || waits.len() == 1, waits.first().map(|w| w.t_leave).unwrap_or(t_end));
    // (a wait that filled the poller's event buffer - 1024 events - may have left ready sources
    // for the next dispatch: the "pending at the wait, hence served" oracles do not apply)
    let saturated = sim.hk.borrow().batch_n_fd >= 1024;
    if !saturated {
        crate::exec::after_dispatch(sim, ok);
        if sim.is_dead() {
            return;
        }
        crate::adapter::after_dispatch(sim, ok);
        if sim.is_dead() {
            return;
        }
        crate::sig::after_dispatch(sim, ok);
        if sim.is_dead() {
            return;
        }
    }
    // ---- C12: the wait
    if waits.len() != 1 && (ok || waits.len() > 1) {
        // an error before the wait (before_sleep) legitimately gives 0 waits
        sim.violate("wait.count", vec![], format!("{} waits in one dispatch", waits.len()));
        return;
    }
    // ---- C02 and friends: MUST subset of invoked + excused. A source error is reported after
    // the whole batch has been processed, so the obligation also holds for a dispatch that
    // returned an error (the failing sources themselves aside), provided the wait was reached.
    // (the property speaks of batches up to the poller's buffer size)
    if saturated {
        sim.probe("batch_saturated");
    }
    if (ok || waits.len() == 1) && !saturated {
        let st = sim.st.borrow();
        let mut bad: Option<(Vec<&'static str>, String, Vec<String>)> = None;
        for (id, m) in st.must.iter() {
            let Some(s) = st.srcs.get(id) else { continue };
            let served = match m {
                Must::Callback => s.cb_this_dispatch > 0,
                Must::Process => s.pe_this_dispatch > 0,
            };
            if served || s.excused || s.indeterminate || s.errored_this_dispatch {
                continue;
            }
            // a composite source re-registered by an earlier event of this batch (one of its
            // children retired): C02's own exception, its timer children fire in the next one
            if matches!(s.k, K::Comp(_)) && s.sh.rereg.get() > s.rereg_at_start {
                continue;
            }
            if !ok && !flags_err_ok(&st) {
                continue;
            }
            let mut flags = vec![format!("kind={}", s.k.name())];
            if s.reenabled {
                flags.push("after_enable".into());
            }
            let mut extra = match &s.k {
                K::Ping(_) => vec!["C03"],
                K::Channel(_) => vec!["C04"],
                K::Timer(_) => vec!["C05"],
                K::Sig(_) => vec!["C19"],
                K::Exec(_) | K::Stream(_) => vec!["C10"],
                _ => vec![],
            };
            if s.reenabled {
                extra.push("C07");
            }
            if st.any_dispatch_error {
                extra.push("C15");
                flags.push("after_dispatch_error".into());
            }
            if let K::Timer(t) = &s.k {
                if waits.first().map(|w| w.slept && Some(w.t_leave) == t.deadline).unwrap_or(false) {
                    extra.push("C12");
                    flags.push("limit_timer".into());
                }
            }
            bad = Some((extra, format!("source {} ({}) had a pending cause when the wait ended but was not dispatched", id, s.k.name()), flags));
            break;
        }
        let n_must = st.must.len() as u64;
        drop(st);
        if let Some((extra, d, f)) = bad {
            sim.violate_props("must.not_dispatched", &extra, f, d);
            return;
        }
        sim.rule_ok(&["C02"], 1000 + n_must.min(8));
    }
    // ---- C13: idles
    if ok {
        let st = sim.st.borrow();
        let dn = sim.hk.borrow().dispatch_no;
        for (id, i) in st.idles.iter() {
            if i.state == IdleState::Pending && !(i.inserted_in_idle_phase && i.inserted_in_dispatch == Some(dn)) {
                let d = format!("idle {} was pending when dispatch returned Ok but did not run", id);
                drop(st);
                sim.violate("idle.not_run", vec![], d);
                return;
            }
        }
    }
    // ---- C12: how long
    if let Some(w) = waits.first() {
        let st = sim.st.borrow();
        let skip = any_indeterminate_timer(&st);
        drop(st);
        if !skip {
            check_wait(sim, t, w, t_start, t_end, ok);
        }
    }
}

fn check_wait(sim: &Rc<Sim>, t: Timeout, w: &WaitRec, t_start: u64, t_end: u64, ok: bool) {
    let user = match t {
        Timeout::Zero => Some(0u64),
        Timeout::Some(ns) => Some(ns),
        Timeout::None => None,
        // the hook sees the requested timeout in nanoseconds, clamped to 64 bits
        Timeout::Max => Some(u64::MAX),
    };
    let (next, synth) = {
        let st = sim.st.borrow();
        (st.wait_next_deadline, st.wait_synthetic)
    };
    let until_timer = next.map(|d| d.saturating_sub(w.t_enter));
    let mut expect = match (user, until_timer) {
        (Some(a), Some(b)) => Some(a.min(b)),
        (a, b) => a.or(b),
    };
    if synth {
        expect = Some(0);
    }
    let ctx = (match t { Timeout::Zero => 0, Timeout::Some(_) => 1, Timeout::None => 2, Timeout::Max => 3 }) * 10
        + match (until_timer, user) {
            (None, _) => 0,
            (Some(0), _) => 1,
            (Some(b), Some(a)) if b < a => 2,
            (Some(b), Some(a)) if b == a => 3,
            (Some(_), Some(_)) => 4,
            (Some(_), None) => 5,
        };
    if w.requested != Some(expect) {
        sim.violate(
            if synth { "lifecycle.synthetic_timeout" } else { "wait.requested_timeout" },
            vec![format!("timeout={:?}", t).chars().take(12).collect(), if next.is_some() { "timer_armed".into() } else { "no_timer".into() }],
            format!("dispatch({:?}) asked the poller to wait {:?} ns; expected {:?} ns (earliest armed deadline in {:?} ns)", t, w.requested, expect, until_timer),
        );
        return;
    }
    let hook_time = sim.st.borrow().hook_time;
    if t_start + hook_time != w.t_enter {
        sim.violate("wait.clock_moved", vec![], "clock moved before the wait".into());
        return;
    }
    if matches!(t, Timeout::Zero) && t_end != t_start + hook_time {
        sim.violate("wait.clock_moved", vec![], "zero timeout dispatch consumed time".into());
        return;
    }
    // with no event and no wake-up the dispatch returns at start + effective timeout
    if w.events == 0 && !w.notified && !w.would_block_forever && ok {
        if let Some(e) = expect {
            if w.t_leave != w.t_enter.saturating_add(e) && !w.env_interrupted {
                sim.violate(
                    "wait.requested_timeout",
                    vec!["duration".into()],
                    format!("idle dispatch lasted {} ns, expected {}", w.t_leave - w.t_enter, e),
                );
                return;
            }
        }
    }
    sim.rule_ok(&["C12"], ctx as u64 + if w.slept { 100 } else { 0 });
}

// ------------------------------------------------------------------------------------------
// hooks
// ------------------------------------------------------------------------------------------

/// The discrete-event wait: never blocks; polls the real epoll with a zero timeout and jumps
/// the virtual clock.
pub fn wait_hook(
    sim: &Sim,
    poller: &polling::Poller,
    events: &mut polling::Events,
    timeout: Option<Duration>,
) -> io::Result<usize> {
    // one dispatch waits once (a few times with interrupted waits); a dispatch that keeps
    // going back to the poller without ever returning is a livelock of the code under test
    if sim.is_dead() || sim.hk.borrow().waits.len() > 300 {
        if !sim.is_dead() {
            sim.violate("wait.livelock", vec![], "one dispatch went back to the poller more than 300 times without returning (woken up, nothing to deliver, waits again: it would never return)".into());
        }
        return Err(io::Error::new(io::ErrorKind::Other, "simulation ended"));
    }
    // fault site 5: the n-th wait of the run fails with a poller error (not EINTR, which the
    // polling crate absorbs): the dispatch returns that error, nothing has been collected
    {
        let mut hk = sim.hk.borrow_mut();
        let n = hk.wait_calls;
        hk.wait_calls += 1;
        let hit = hk.faults.iter().find(|f| f.site == 5 && f.nth == n).map(|f| if f.errno == 0 { libc::EBADF } else { f.errno });
        if let Some(errno) = hit {
            hk.faults_fired.push((5, errno));
            hk.expected_err = true;
            if hk.record {
                hk.trace.push(format!("  fault injected: the wait fails with errno {}", errno));
            }
            return Err(io::Error::from_raw_os_error(errno));
        }
    }
    let t_enter = sim.now_ns();
    let req = timeout.map(|d| d.as_nanos().min(u64::MAX as u128) as u64);
    let mut rec = WaitRec { requested: Some(req), t_enter, ..Default::default() };
    // what the model thinks the loop should wait for (taken now: calloop computed its
    // timeout just before calling us and the clock has not moved since)
    {
        let mut st = sim.st.borrow_mut();
        st.wait_next_deadline = model_next_deadline(&st);
    }
    let notifier_fd = sim.hk.borrow().notifier_fd;
    let result;
    loop {
        let notified = notifier_fd >= 0 && os::eventfd_count(notifier_fd) > 0;
        events.clear();
        let r = poller.wait(events, Some(Duration::ZERO));
        if let Err(e) = r {
            result = Err(e);
            break;
        }
        let n = events.iter().count();
        rec.notified |= notified;
        if n > 0 || notified {
            rec.events = n;
            result = Ok(n);
            break;
        }
        // the loop would go to sleep now
        if std::mem::replace(&mut sim.st.borrow_mut().wakeup_outstanding, false) {
            sim.violate("wait.wakeup_ignored", vec![], "LoopSignal::wakeup() returned since the last wait ended, yet this wait finds no notification and goes to sleep".into());
            result = Err(io::Error::new(io::ErrorKind::Other, "simulation ended"));
            break;
        }
        let now = sim.now_ns();
        let wake_at = req.map(|r| t_enter.saturating_add(r));
        let next_env = sim.st.borrow().env.front().map(|e| e.at.max(now));
        if let Some(w) = wake_at {
            if w <= now {
                result = Ok(0);
                break;
            }
        }
        // a sleep of more than fifty years with nothing else to come is "for ever": the run does
        // not jump there (64-bit nanoseconds end after 584 years), the wait just ends
        const HORIZON: u64 = 50 * 31_557_600_000_000_000;
        let wake_at = match wake_at {
            Some(w) if w - now > HORIZON => None,
            w => w,
        };
        match (wake_at, next_env) {
            (None, None) => {
                rec.would_block_forever = true;
                result = Ok(0);
                break;
            }
            (w, e) => {
                let env_first = match (w, e) {
                    (Some(w), Some(e)) => e <= w,
                    (None, Some(_)) => true,
                    _ => false,
                };
                rec.slept = true;
                if env_first {
                    let at = e.unwrap();
                    sim.clock.set(at);
                    rec.env_interrupted = true;
                    crate::ops::run_due_env(sim);
                    continue;
                } else {
                    sim.clock.set(w.unwrap());
                    continue;
                }
            }
        }
    }
    sim.st.borrow_mut().wakeup_outstanding = false;
    rec.t_leave = sim.now_ns();
    sim.trace(|| format!("  wait req={:?} -> events={} notified={} t={}..{} forever={}", req, rec.events, rec.notified, rec.t_enter, rec.t_leave, rec.would_block_forever));
    sim.hk.borrow_mut().waits.push(rec);
    compute_must(sim);
    result
}

/// At the instant the batch is collected: which sources have a pending cause.
fn compute_must(sim: &Sim) {
    let now = sim.now_ns();
    let mut st = sim.st.borrow_mut();
    crate::exec::at_wait(&mut st);
    crate::adapter::at_wait(&mut st);
    let exec_runnable: std::collections::BTreeSet<Id> = st.tasks.values().filter(|t| t.runnable && !t.done).map(|t| t.exec).collect();
    let mut must = BTreeMap::new();
    for (id, s) in st.srcs.iter_mut() {
        if !(s.inserted && s.enabled) || s.indeterminate {
            continue;
        }
        match &mut s.k {
            K::Ping(p) => {
                if p.pending {
                    must.insert(*id, Must::Callback);
                } else if p.close_written {
                    must.insert(*id, Must::Process);
                }
            }
            K::Channel(c) => {
                if !c.queue.is_empty() || (c.n_senders() == 0 && !c.closed_delivered) {
                    must.insert(*id, Must::Callback);
                }
            }
            K::Timer(t) => {
                if t.armed {
                    if let Some(d) = t.deadline {
                        if d <= now {
                            must.insert(*id, Must::Callback);
                        }
                    }
                }
            }
            K::Generic(g) => {
                let rev = os::poll_revents(std::os::fd::AsRawFd::as_raw_fd(&*g.own.0));
                let ready = gen_ready(g.reg_interest, rev);
                match g.reg_mode {
                    0 => {
                        if ready {
                            must.insert(*id, Must::Callback);
                        }
                    }
                    2 => {
                        if ready && g.oneshot_armed {
                            must.insert(*id, Must::Callback);
                        }
                    }
                    _ => {
                        let r = g.reg_interest & 1 != 0 && g.edge_r && rev & (os::PIN | os::PPRI) != 0;
                        let w = g.reg_interest & 2 != 0 && g.edge_w && rev & os::POUT != 0;
                        if ready && (g.edge_owed || r || w) {
                            must.insert(*id, Must::Callback);
                        }
                    }
                }
            }
            K::Life(l) => {
                if l.pending || l.pending2 || l.synth_returned {
                    must.insert(*id, Must::Callback);
                }
            }
            K::Exec(_) => {
                if exec_runnable.contains(id) {
                    must.insert(*id, Must::Process);
                }
            }
            K::Stream(k) => {
                if k.wake_pending {
                    if !k.expected.is_empty() || (k.ended && !k.none_delivered) {
                        must.insert(*id, Must::Callback);
                    } else {
                        must.insert(*id, Must::Process);
                    }
                }
            }
            K::Sig(k) => {
                k.pending_at_wait = k.pending;
                if (0..crate::sig::N_SIG).any(|i| k.pending[i] != 0 && k.configured.contains(&(i as u8))) {
                    must.insert(*id, Must::Callback);
                }
            }
            K::Comp(k) => {
                if crate::composite::has_cause(k, now) {
                    must.insert(*id, Must::Callback);
                }
            }
            K::Trans(_) | K::Failed => {}
        }
    }
    st.must = must;
}

/// Would epoll report this fd, given the registered interest and poll(2) ground truth?
pub fn gen_ready(interest: u8, rev: i16) -> bool {
    let mut mask = os::PHUP | os::PERR;
    if interest & 1 != 0 {
        mask |= os::PIN | os::PPRI;
    }
    if interest & 2 != 0 {
        mask |= os::POUT;
    }
    rev & mask != 0
}

/// Check the collected batch against the model (ghost events, one-shot arming).
pub fn batch_hook(sim: &Sim, events: &mut Vec<BatchEvent>, n_fd: usize) {
    // faults injected since the last top-level step (inside run(), deep inside a drop) are
    // attributed to the owners of the fds they hit before anything is judged
    crate::ops::attribute_faults(sim);
    let mut st = sim.st.borrow_mut();
    let mut viol: Option<(&'static str, Vec<String>, String)> = None;
    for (i, e) in events.iter().enumerate() {
        let rk = reg_key_of(e.key);
        let id = st.key_to_id.get(&rk).copied();
        if i >= n_fd {
            continue;
        }
        match id {
            None if st.adapter_keys.get(&e.key).and_then(|a| st.adapters.get(a)).map(|a| crate::adapter::alive(a.state)).unwrap_or(false) => {}
            None if st.leaked_keys.contains(&e.key) => {}
            None => {
                // an fd event whose key belongs to no live registration
                if !st.srcs.values().any(|s| s.indeterminate) && st.adapters_indeterminate == 0 {
                    viol = Some(("generic.ghost_event", vec![], format!("the poller reported an event for key {:#x} which no inserted source owns", e.key)));
                }
            }
            Some(id) => {
                let s = st.srcs.get_mut(&id).unwrap();
                if s.indeterminate {
                    continue;
                }
                if !s.enabled {
                    viol = Some(("generic.ghost_event", vec!["disabled".into()], format!("the poller reported an event for disabled source {}", id)));
                    continue;
                }
                if let K::Generic(g) = &mut s.k {
                    match g.reg_mode {
                        2 => {
                            if !g.oneshot_armed {
                                viol = Some(("generic.oneshot_fired_unarmed", vec![], format!("one-shot source {} reported again without update()", id)));
                            }
                            g.oneshot_armed = false;
                        }
                        1 => {
                            g.edge_owed = false;
                            g.edge_r = false;
                            g.edge_w = false;
                        }
                        _ => {}
                    }
                }
            }
        }
    }
    let n = events.len();
    drop(st);
    if n_fd > 1 {
        sim.probe("batch_multi_fd");
    }
    sim.trace(|| format!("  batch {} events ({} fd): {:?}", n, n_fd, events.iter().map(|e| format!("{:#x}", e.key)).collect::<Vec<_>>()));
    if let Some((r, f, d)) = viol {
        sim.violate(r, f, d);
    }
}

pub fn event_begin(sim: &Sim, key: usize) {
    let mut st = sim.st.borrow_mut();
    let rk = reg_key_of(key);
    if let Some(id) = st.key_to_id.get(&rk).copied() {
        st.cur_event.push(id);
        if let Some(s) = st.srcs.get_mut(&id) {
            s.in_processing += 1;
            s.deferred = None;
            s.removed_in_own_cb = false;
        }
    } else {
        st.cur_event.push(u32::MAX);
    }
}

pub fn event_end(sim: &Sim, _key: usize) {
    let mut viol: Option<(&'static str, Vec<String>, String)> = None;
    let ended;
    {
        let mut st = sim.st.borrow_mut();
        let Some(id) = st.cur_event.pop() else { return };
        if id == u32::MAX {
            return;
        }
        ended = Some(id);
        let now = sim.now_ns();
        let mut remove_key = None;
        if let Some(s) = st.srcs.get_mut(&id) {
            s.in_processing = s.in_processing.saturating_sub(1);
            if std::mem::replace(&mut sim.hk.borrow_mut().fault_in_event, false) {
                // an injected fault hit this source's post action
                s.indeterminate = true;
            }
            let last = s.sh.last_ret.take();
            let deferred = s.deferred.take();
            match last {
                None => {}
                Some(LastRet::Err) => {
                    // the error is reported at the end of the batch; what the callback requested
                    // on its own source before failing is applied all the same (C09: exactly
                    // once, as soon as the event processing finishes)
                    if s.inserted && !s.indeterminate {
                        match deferred {
                            Some(Deferred::Disable) => {
                                if s.enabled {
                                    s.exp[2] += 1;
                                }
                                model_disabled(s);
                                sim.probe("deferred_request_applied_after_error");
                            }
                            Some(Deferred::Reregister) => {
                                s.exp[1] += 1;
                                if s.enabled {
                                    model_reregistered(s, now);
                                }
                                sim.probe("deferred_request_applied_after_error");
                            }
                            None => {}
                        }
                    } else if deferred.is_some() {
                        s.indeterminate = true;
                    }
                }
                Some(LastRet::Ok(pa)) => {
                    let fin = if pa != PostAction::Continue {
                        pa
                    } else {
                        match deferred {
                            Some(Deferred::Disable) => PostAction::Disable,
                            Some(Deferred::Reregister) => PostAction::Reregister,
                            None => PostAction::Continue,
                        }
                    };
                    match fin {
                        PostAction::Reregister => s.exp[1] += 1,
                        PostAction::Disable => {
                            // (a source somebody else disabled earlier in this dispatch is not
                            // unregistered again)
                            if s.enabled || !s.inserted && s.enabled_when_removed {
                                s.exp[2] += 1;
                                if !s.inserted {
                                    s.enabled_when_removed = false;
                                }
                            }
                            if !s.inserted {
                                if let K::Trans(t) = &mut s.k {
                                    // disabled and removed in one event: the loop unregisters the
                                    // parent twice in a row, outside C18's proviso
                                    t.gave_up = true;
                                    s.indeterminate = true;
                                }
                            }
                        }
                        _ => {}
                    }
                    if s.inserted {
                        match fin {
                            PostAction::Continue => {}
                            PostAction::Reregister => {
                                if s.enabled {
                                    model_reregistered(s, now);
                                }
                            }
                            PostAction::Disable => {
                                model_disabled(s);
                            }
                            PostAction::Remove => {
                                s.enabled_when_removed = s.enabled;
                                s.inserted = false;
                                s.enabled = false;
                                remove_key = s.reg_key;
                                if s.sh.unwrapped.get() {
                                    // the IO object was handed back: its fd can be inserted again
                                    if let K::Generic(g) = &mut s.k {
                                        g.released = true;
                                    }
                                }
                                if let K::Trans(t) = &mut s.k {
                                    crate::transient::parent_registration(t, 2);
                                }
                            }
                        }
                    }
                    // kind specific expectations about the post action
                    let indet = s.indeterminate;
                    match &mut s.k {
                        _ if indet => {}
                        K::Ping(p) => {
                            if p.closed_at_pe && pa != PostAction::Remove {
                                viol = Some(("ping.not_removed_after_close", vec![], format!("ping source {} drained its close marker but did not ask for removal", id)));
                            } else if !p.closed_at_pe && pa == PostAction::Remove {
                                viol = Some(("ping.removed_without_close", vec![], format!("ping source {} asked for removal although a handle is alive", id)));
                            }
                        }
                        K::Channel(c) => {
                            if c.closed_delivered && pa != PostAction::Remove {
                                viol = Some(("channel.not_removed_after_closed", vec![], format!("channel {} delivered Closed but did not ask for removal", id)));
                            }
                        }
                        K::Stream(k) => {
                            let polled = k.shared.borrow().polls > k.polls_at_pe;
                            if polled && (!k.expected.is_empty() || (k.ended && !k.none_delivered)) {
                                viol = Some(("stream.items_left", vec![], format!("stream {} was polled but {} ready items (ended={}) were left undelivered without a pending wake-up", id, k.expected.len(), k.ended)));
                            } else if k.none_delivered && pa != PostAction::Remove {
                                viol = Some(("stream.not_removed_after_end", vec![], format!("stream {} delivered its final None but did not ask for removal", id)));
                            }
                        }
                        K::Timer(t) => {
                            if t.expect_remove && pa != PostAction::Remove {
                                viol = Some(("timer.not_removed_after_drop", vec![], format!("timer {} returned Drop but did not ask for removal", id)));
                            }
                            t.expect_remove = false;
                        }
                        _ => {}
                    }
                }
            }
        }
        if let Some(k) = remove_key {
            if st.key_to_id.get(&k) == Some(&id) {
                st.key_to_id.remove(&k);
            }
        }
        // a source that is gone by the end of its event (removed itself, or asked for
        // removal) is unregistered exactly once by the loop
        if let Some(s) = st.srcs.get_mut(&id) {
            if !s.inserted && (s.removed_in_own_cb || remove_key.is_some()) && std::mem::replace(&mut s.enabled_when_removed, false) {
                s.exp[2] += 1;
            }
            if s.sh.last_ret.get().is_none() && matches!(s.k, K::Failed) {
                s.indeterminate = true;
            }
        }
    }
    if let Some((r, f, d)) = viol {
        sim.violate(r, f, d);
        return;
    }
    check_counts(sim, ended);
    if let Some(id) = ended {
        if !sim.is_dead() {
            crate::transient::check(sim, id, "event_end");
        }
    }
}

/// C09: register / reregister / unregister calls seen by every wrapped source against the
/// calls the model says the history implies. `during` = key of the event that just ended.
pub fn check_counts(sim: &Sim, during: Option<Id>) {
    let st = sim.st.borrow();
    let cur = during;
    for (id, s) in st.srcs.iter() {
        if s.indeterminate || matches!(s.k, K::Failed) || s.in_processing > 0 {
            continue;
        }
        let seen = [s.sh.reg.get(), s.sh.rereg.get(), s.sh.unreg.get()];
        if seen != s.exp {
            let what = ["register", "reregister", "unregister"];
            let i = (0..3).find(|i| seen[*i] != s.exp[*i]).unwrap();
            let other = during.is_some() && cur != Some(*id);
            let msg = format!(
                "source {} ({}) saw {} {}() calls, the history implies {}{}",
                id,
                s.k.name(),
                seen[i],
                what[i],
                s.exp[i],
                if other { " - the extra call came while another source's event was being finished" } else { "" }
            );
            let flags = vec![what[i].to_string(), if seen[i] > s.exp[i] { "extra".into() } else { "missing".into() }];
            // a missing unregister leaves the fd in the poller and the source half-released
            // an unrequested extra (un/re)registration silences or disturbs a source that did
            // not ask for it
            // (a self-removal from the source's own callback that is not carried out as it would
            // be outside a dispatch is also C08's business)
            let extra: &[&str] = if i == 2 && seen[i] < s.exp[i] {
                if s.removed_in_own_cb {
                    &["C16", "C06", "C15", "C01", "C08"]
                } else {
                    &["C16", "C06", "C15", "C01"]
                }
            } else if seen[i] > s.exp[i] {
                // an unrequested unregistration silences the source (its pending readiness is
                // never dispatched again); after a failed dispatch it also shows that the error
                // did not leave the other sources alone
                match (i == 2, st.any_dispatch_error) {
                    (true, true) => &["C07", "C02", "C15"],
                    (true, false) => &["C07", "C02"],
                    (false, true) => &["C07", "C15"],
                    (false, false) => &["C07"],
                }
            } else {
                &[]
            };
            drop(st);
            sim.violate_props(if other { "postaction.wrong_target" } else { "postaction.count" }, extra, flags, msg);
            return;
        }
    }
    drop(st);
    sim.rule_ok(&["C09"], 90 + during.is_some() as u64);
}

/// Model effect of a successful (re)registration of an enabled source.
pub fn model_reregistered(s: &mut Src, _now: u64) {
    match &mut s.k {
        K::Trans(t) => crate::transient::parent_registration(t, 1),
        K::Timer(t) => {
            t.armed = t.deadline.is_some();
            if t.armed {
                t.arm_no += 1;
            }
        }
        K::Generic(g) => {
            g.reg_interest = g.interest;
            g.reg_mode = g.mode;
            g.oneshot_armed = true;
            g.edge_owed = true;
        }
        _ => {}
    }
}

pub fn model_disabled(s: &mut Src) {
    s.enabled = false;
    s.was_disabled = true;
    if let K::Trans(t) = &mut s.k {
        crate::transient::parent_registration(t, 2);
    }
    if let K::Timer(t) = &mut s.k {
        t.armed = false;
    }
}

pub fn model_enabled(s: &mut Src, now: u64) {
    s.enabled = true;
    s.reenabled = true;
    if let K::Trans(t) = &mut s.k {
        crate::transient::parent_registration(t, 0);
    }
    model_reregistered(s, now);
}

/// process_events of source `id` starts (called by Wrap).
pub fn pe_begin(id: Id, _key: usize) -> bool {
    let Some(sim) = try_cur() else { return false };
    // fault site 4: the n-th process_events call of the run fails
    let injected = {
        let mut hk = sim.hk.borrow_mut();
        let n = hk.pe_calls;
        hk.pe_calls += 1;
        let hit = hk.faults.iter().any(|f| f.site == 4 && f.nth == n);
        if hit {
            hk.faults_fired.push((4, 0));
        }
        hit
    };
    let mut st = sim.st.borrow_mut();
    let mut after_remove = false;
    if let Some(s) = st.srcs.get_mut(&id) {
        // the loop never hands an event to a source that is no longer in it (a source that
        // removed itself during this very event aside)
        if !s.inserted && s.token.is_some() && !s.removed_in_own_cb && !s.indeterminate && s.in_processing <= 1 && s.deferred.is_none() {
            after_remove = true;
        }
        s.pe_this_dispatch += 1;
        match &mut s.k {
            K::Ping(p) => {
                // the drain happens first thing: whatever is in the counter now is consumed
                p.closed_at_pe = p.close_written && s.sh.registered.get();
                p.pending_at_pe = p.pending;
                p.cb_in_pe = 0;
            }
            K::Channel(c) => {
                c.msgs_in_pe = 0;
            }
            K::Stream(k) => {
                // the ping is only drained (and the stream polled) by a registered source
                if s.sh.registered.get() {
                    k.wake_pending = false;
                }
                k.items_in_pe = 0;
                k.polls_at_pe = k.shared.borrow().polls;
            }
            _ => {}
        }
        if injected {
            // the source never saw the event: whatever it had pending is in an unknown state
            s.indeterminate = true;
        }
    }
    drop(st);
    if after_remove {
        sim.violate("dispatch.event_after_remove", vec![], format!("process_events of source {} was called although the source had been removed from the loop before this event", id));
    }
    injected
}

/// process_events of source `id` returned (called by Wrap).
pub fn pe_end(id: Id, ret: LastRet, scripted: bool) {
    let Some(sim) = try_cur() else { return };
    if ret == LastRet::Err {
        if let Some(s) = sim.st.borrow_mut().srcs.get_mut(&id) {
            s.errored_this_dispatch = true;
        }
    }
    if ret == LastRet::Err {
        let mut hk = sim.hk.borrow_mut();
        if scripted || hk.cb_err_returned {
            hk.expected_err = true;
        }
        hk.cb_err_returned = false;
    }
    let mut st = sim.st.borrow_mut();
    if let Some(s) = st.srcs.get_mut(&id) {
        if let K::Ping(p) = &mut s.k {
            // a drain without a callback still consumed the pings (token mismatch aside)
            if ret != LastRet::Err && !scripted {
                if p.pending_at_pe && p.cb_in_pe == 0 && s.inserted && s.enabled {
                    // reported by the after-dispatch MUST rule if it matters
                }
            }
        }
    }
}

/// a failure inside the dispatch in progress (only the first one is kept)
pub fn note_failure(is_pe: bool, text: String) {
    let Some(sim) = try_cur() else { return };
    let mut hk = sim.hk.borrow_mut();
    if hk.in_dispatch && hk.first_failure.is_none() {
        hk.first_failure = Some((is_pe, text));
    }
}

pub fn scripted_failure(id: Id, _what: u8) {
    let Some(sim) = try_cur() else { return };
    {
        let mut hk = sim.hk.borrow_mut();
        if hk.in_dispatch {
            hk.expected_err = true;
        }
        hk.fault_window = true;
    }
    let mut st = sim.st.borrow_mut();
    if let Some(s) = st.srcs.get_mut(&id) {
        s.indeterminate = true;
    }
    sim.probe("scripted_failure");
}

// ------------------------------------------------------------------------------------------
// invariants after every top-level step
// ------------------------------------------------------------------------------------------

fn step_invariants(sim: &Rc<Sim>, p: &Program, i: usize) {
    crate::ops::attribute_faults(sim);
    crate::exec::step_invariants(sim, false);
    if sim.is_dead() {
        return;
    }
    crate::adapter::step_invariants(sim);
    if sim.is_dead() {
        return;
    }
    crate::sig::check(sim, "step");
    if sim.is_dead() {
        return;
    }
    // release: a removed source whose dispatcher the program does not hold is dropped once
    {
        let st = sim.st.borrow();
        for (id, s) in st.srcs.iter() {
            let d = s.sh.dropped.get();
            let c = s.cb_drop.get();
            if d > 1 || c > 1 {
                let msg = format!("source {} dropped {} times, its callback {} times", id, d, c);
                drop(st);
                sim.violate("release.double_drop", vec![], msg);
                return;
            }
            if !s.inserted && !s.kept && !matches!(s.k, K::Failed) && !s.indeterminate && st.loop_alive {
                if d != 1 || c != 1 {
                    let msg = format!("source {} ({}) was removed but is still held by the loop (source drops={}, callback drops={})", id, s.k.name(), d, c);
                    let flags = vec![format!("kind={}", s.k.name())];
                    drop(st);
                    sim.violate("release.not_dropped", flags, msg);
                    return;
                }
            }
        }
    }
    // loop statistics against the model
    let (h, live, any_indet) = {
        let st = sim.st.borrow();
        let live = st.srcs.values().filter(|s| s.inserted).count() + st.live_adapters + st.hidden_timers.iter().filter(|h| !h.1).count();
        (st.handle.clone(), live, st.srcs.values().any(|s| s.indeterminate) || st.adapters_indeterminate > 0 || st.hidden_unknown)
    };
    if let Some(h) = h {
        let stats = h.verif_stats();
        if !any_indet && stats.occupied_slots != live {
            sim.violate(
                "stats.occupied_slots",
                vec![if stats.occupied_slots > live { "leak".into() } else { "missing".into() }],
                format!("the loop holds {} sources, the model says {} are inserted", stats.occupied_slots, live),
            );
            return;
        }
        if !stats.pending_action_is_continue {
            // internal state, not behaviour: the behavioural consequence (the action hits
            // another source) is what the call-count oracle reports
            sim.probe("pending_action_left_in_cell");
        }
        check_counts(sim, None);
        if sim.is_dead() {
            return;
        }
        crate::transient::check_all(sim, "step");
        if sim.is_dead() {
            return;
        }
        // timer residue: bounded by live timers, must not accumulate
        let st = sim.st.borrow();
        let armed = st.srcs.values().filter(|s| s.inserted && s.enabled && matches!(&s.k, K::Timer(t) if t.armed)).count();
        let live_timers = st.srcs.values().filter(|s| matches!(&s.k, K::Timer(_)) && (s.inserted || s.indeterminate)).count();
        let extra = st.extra_timer_entries + st.hidden_timers.iter().filter(|h| !h.1).count();
        drop(st);
        let comp_timers = sim.st.borrow().srcs.values().filter_map(|s| if let K::Comp(k) = &s.k { Some(k.children.iter().filter(|c| matches!(c, crate::composite::ChildM::Timer { .. })).count()) } else { None }).sum::<usize>();
        let trans_timers = comp_timers + sim.st.borrow().srcs.values().filter_map(|s| if let K::Trans(t) = &s.k { Some(t.children.iter().filter(|c| c.is_timer).count()) } else { None }).sum::<usize>();
        if !any_indet && stats.timer_heap_len > armed + live_timers + extra + trans_timers + 4 {
            sim.violate("timer.residue", vec![], format!("timer heap holds {} entries for {} armed timers ({} live)", stats.timer_heap_len, armed, live_timers));
            return;
        }
        if !any_indet {
            let st = sim.st.borrow();
            let lc = Some(st.srcs.values().filter(|s| s.inserted && s.enabled && matches!(s.k, K::Life(_))).count());
            drop(st);
            if let Some(lc) = lc {
                if stats.lifecycle_len != lc || stats.lifecycle_distinct != lc {
                    sim.violate("stats.lifecycle_len", vec![], format!("lifecycle set has {} entries ({} distinct), model says {}", stats.lifecycle_len, stats.lifecycle_distinct, lc));
                    return;
                }
            }
        }
        sim.rule_ok(&["C06"], live as u64);
        let faulted = {
            let hk = sim.hk.borrow();
            !hk.faults_fired.is_empty() || hk.probes.get("insert_failed").copied().unwrap_or(0) > 0 || hk.probes.get("scripted_failure").copied().unwrap_or(0) > 0 || hk.probes.get("dispatch_err_expected").copied().unwrap_or(0) > 0
        };
        if faulted {
            // the loop survived a failure and is still consistent with the model
            sim.rule_ok(&["C15"], 150 + live as u64);
        }
    }
    if p.table_every > 0 && (i as u32 + 1) % p.table_every == 0 {
        crate::table::check_table(sim);
    }
}

fn final_release_check(sim: &Rc<Sim>) {
    // the program drops everything it still holds that can keep a source alive
    let kept: Vec<Id> = sim.st.borrow().srcs.iter().filter(|(_, s)| s.kept).map(|(i, _)| *i).collect();
    for id in kept {
        crate::ops::drop_kept(sim, id);
    }
    let idle_handles: Vec<_> = sim.st.borrow_mut().idles.values_mut().filter_map(|i| i.handle.take()).collect();
    drop(idle_handles);
    // an adapter is a strong handle on the loop; one that lives inside a future of the loop's
    // own executor is the documented reference cycle: nothing is promised then
    if sim.st.borrow().adapters.values().any(|a| matches!(a.state, crate::adapter::AdState::InTask(_))) {
        sim.probe("teardown_with_adapter_cycle");
        return;
    }
    let ads: Vec<_> = sim.st.borrow_mut().adapters.values_mut().filter_map(|a| a.adapter.take()).collect();
    drop(ads);
    // the program's schedulers and stored wakers go too
    let scheds: Vec<_> = sim.st.borrow_mut().srcs.values_mut().filter_map(|s| if let K::Exec(e) = &mut s.k { e.sched.take() } else { None }).collect();
    drop(scheds);
    let wakers: Vec<_> = sim.st.borrow_mut().tasks.values_mut().filter_map(|t| t.waker.take()).collect();
    drop(wakers);
    crate::exec::step_invariants(sim, true);
    if sim.is_dead() {
        return;
    }
    let st = sim.st.borrow();
    for (id, s) in st.srcs.iter() {
        if matches!(s.k, K::Failed) {
            continue;
        }
        let d = s.sh.dropped.get();
        let c = s.cb_drop.get();
        if d != 1 || c != 1 {
            let msg = format!("after dropping the loop and all handles source {} ({}) was dropped {} times and its callback {} times", id, s.k.name(), d, c);
            let flags = vec![format!("kind={}", s.k.name()), "teardown".into()];
            drop(st);
            sim.violate(if d > 1 || c > 1 { "release.double_drop" } else { "release.not_dropped" }, flags, msg);
            return;
        }
    }
    for (id, i) in st.idles.iter() {
        if i.drop_ctr.get() != 1 {
            let msg = format!("idle {} closure dropped {} times after teardown", id, i.drop_ctr.get());
            drop(st);
            sim.violate("idle.leaked", vec![], msg);
            return;
        }
    }
}
