//! Generation of the later-phase source kinds.

use crate::gen::{KindTag, G};
use crate::program::*;

pub fn insert_op2(_g: &mut G, id: Id, _k: KindTag, script: Script) -> Op {
    Op::InsertPing { id, script }
}

pub fn cause_op2(_g: &mut G, _id: Id, _k: KindTag) -> Option<Op> {
    None
}
