//! Generation of the later-phase source kinds.

use crate::gen::{KindTag, G};
use crate::program::*;

pub fn insert_op2(_g: &mut G, id: Id, k: KindTag, script: Script) -> Op {
    match k {
        KindTag::Executor => Op::InsertExecutor { id, script },
        KindTag::Stream => Op::InsertStream { id, script },
        KindTag::Composite => {
            let n = _g.rng.range(1, 4);
            let children = (0..n).map(|_| match _g.rng.below(6) { 0 => ChildSpec::Sock, 1 => ChildSpec::Timer(Deadline::In(_g.rng.range(0, 30) * crate::gen::MS)), 2 | 3 => if _g.rng.chance(1, 2) { ChildSpec::ParkedTimer } else { ChildSpec::MaybeTimer }, _ => ChildSpec::Ping }).collect();
            Op::InsertComposite { id, children, script }
        }
        KindTag::Transient => {
            let child = if _g.rng.chance(1, 6) { ChildSpec::Eager } else if _g.rng.chance(2, 3) { ChildSpec::Sock } else { ChildSpec::Timer(Deadline::In(_g.rng.range(0, 20) * crate::gen::MS)) };
            Op::InsertTransient { id, child, from_default: _g.rng.chance(1, 5), script }
        }
        _ => Op::InsertPing { id, script },
    }
}

fn repl_spec(g: &mut G) -> ChildSpec {
    if g.rng.chance(1, 8) {
        return ChildSpec::Eager;
    }
    match g.rng.below(6) {
        0 | 1 => ChildSpec::Timer(Deadline::In(g.rng.range(0, 20) * crate::gen::MS)),
        2 | 3 => ChildSpec::SameFd,
        _ => ChildSpec::Sock,
    }
}

pub fn cause_op2(g: &mut G, id: Id, k: KindTag) -> Option<Op> {
    match k {
        KindTag::Executor if g.rng.chance(1, 60) => {
            let n = *g.rng.pick(&[1023u32, 1024, 1025, 2049]);
            let base = g.next_id;
            g.next_id += n;
            Some(Op::ScheduleMany { exec: id, base, n })
        }
        KindTag::Executor if g.rng.chance(1, 6) => {
            let task = g.fresh();
            g.tasks.push(task);
            let dl = match g.rng.below(4) {
                0 => Deadline::Immediate,
                1 => Deadline::At(g.rng.below(80) * crate::gen::MS),
                _ => Deadline::In(g.rng.range(0, 40) * crate::gen::MS),
            };
            Some(Op::ScheduleTimeout { exec: id, task, dl })
        }
        KindTag::Executor => {
            if g.tasks.is_empty() || g.rng.chance(1, 2) {
                let task = g.fresh();
                g.tasks.push(task);
                let pendings = *g.rng.pick(&[0u32, 0, 1, 1, 2, 3]);
                let mut script = Vec::new();
                for _ in 0..=pendings {
                    let mut ops = Vec::new();
                    if g.rng.chance(1, 3) {
                        ops.extend(g.cb_op(None, 2));
                    }
                    script.push(ops);
                }
                Some(Op::Schedule { exec: id, task, pendings, script })
            } else {
                let t = *g.rng.pick(&g.tasks.clone());
                Some(Op::Wake(t))
            }
        }
        KindTag::Stream => Some(if g.rng.chance(1, 8) {
            Op::StreamEnd(id)
        } else if g.rng.chance(1, 25) {
            Op::StreamPushMany(id, *g.rng.pick(&[1023u32, 1024, 1025, 2048, 2050, 3000]), g.rng.chance(1, 2))
        } else {
            Op::StreamPush(id)
        }),
        KindTag::Composite => Some(match g.rng.below(10) {
            0 | 1 => Op::DropChildPing(id, g.rng.below(4) as u32),
            4 | 5 => Op::ArmChildTimer(id, if g.rng.chance(2, 3) { u32::MAX } else { g.rng.below(4) as u32 }, g.rng.range(0, 20) * crate::gen::MS),
            2 | 3 => Op::PeerWriteChild(id, g.rng.below(4) as u32, 3),
            _ => Op::PingChild(id, g.rng.below(4) as u32),
        }),
        KindTag::Transient => Some(match g.rng.below(10) {
            0 => Op::TrRemove(id),
            1 => Op::TrRemoveLazy(id),
            2 => Op::TrReplace(id, repl_spec(g)),
            3 => Op::TrReplaceLazy(id, repl_spec(g)),
            4 => Op::TrMap(id),
            5 if g.p.name == "C18" || g.p.scripted_faults => Op::TrChildFail(id, g.rng.range(1, 2) as u8),
            6 if g.p.name == "C18" || g.p.scripted_faults => Op::TrReplaceFailRetry(id, repl_spec(g)),
            7 => Op::TrAssign(id, repl_spec(g), g.rng.chance(1, 4)),
            _ => Op::PeerWrite(id, 1),
        }),
        _ => None,
    }
}

pub fn adapter_op(g: &mut G) -> Option<Op> {
    let have = !g.adapters.is_empty();
    let r = g.rng.below(if have { 16 } else { 2 });
    match r {
        0 | 1 => {
            let id = g.fresh();
            let mut fd = match g.rng.below(5) {
                0 => FdSpec::PipeR,
                1 => FdSpec::PipeW,
                _ => FdSpec::Sock,
            };
            if have && g.rng.chance(1, 4) {
                let o = *g.rng.pick(&g.adapters.clone());
                fd = if g.rng.chance(1, 2) { FdSpec::Released(o) } else if g.p.natural_faults { FdSpec::DupOf(o) } else { FdSpec::Released(o) };
            } else if g.p.natural_faults && g.rng.chance(1, 10) {
                fd = FdSpec::RegularFile;
            }
            g.adapters.push(id);
            Some(Op::AdaptIo { id, fd, borrowed: false, blocking: g.rng.chance(1, 2), flushy: g.rng.chance(1, 3) })
        }
        2..=5 => {
            let ex: Vec<Id> = g.srcs.iter().filter(|s| s.1 == KindTag::Executor).map(|s| s.0).collect();
            if ex.is_empty() {
                let id = g.fresh();
                g.srcs.push((id, KindTag::Executor, false));
                return Some(Op::InsertExecutor { id, script: vec![] });
            }
            let exec = *g.rng.pick(&ex);
            let adapter = *g.rng.pick(&g.adapters.clone());
            let task = g.fresh();
            g.tasks.push(task);
            let total = *g.rng.pick(&[1u32, 7, 64, 300, 5000, 20000]);
            let chunk = *g.rng.pick(&[1u32, 3, 16, 100, 4096, 9000]);
            Some(Op::AdapterTask { exec, task, adapter, kind: g.rng.below(9) as u8, total, chunk, then: *g.rng.pick(&[0u8, 0, 1, 2]) })
        }
        6..=8 => Some(Op::AdapterPeerWrite(*g.rng.pick(&g.adapters.clone()), *g.rng.pick(&[1u32, 5, 64, 1000, 6000, 30000]))),
        9 | 10 => Some(Op::AdapterPeerRead(*g.rng.pick(&g.adapters.clone()), *g.rng.pick(&[1u32, 64, 4096, 70000]))),
        11 => Some(Op::AdapterPeerClose(*g.rng.pick(&g.adapters.clone()))),
        14 => Some(Op::AdapterPeerLastWords(*g.rng.pick(&g.adapters.clone()), *g.rng.pick(&[1u32, 5, 64, 1000]))),
        15 => {
            if g.srcs.is_empty() {
                return None;
            }
            let s = g.srcs[g.rng.below(g.srcs.len() as u64) as usize].0;
            Some(Op::AdapterGiveTo(*g.rng.pick(&g.adapters.clone()), s, g.rng.below(3) as u8))
        }
        12 => Some(Op::AdapterIntoInner(*g.rng.pick(&g.adapters.clone()))),
        _ => Some(Op::AdapterDrop(*g.rng.pick(&g.adapters.clone()))),
    }
}

fn subset(g: &mut G) -> Vec<u8> {
    let n = g.nsig;
    // mostly about half of them, sometimes (nearly) all
    let (a, b) = if g.rng.chance(1, 4) { (9, 10) } else { (1, 2) };
    let mut v: Vec<u8> = (0..n as u8).filter(|_| g.rng.chance(a, b)).collect();
    if v.is_empty() && g.rng.chance(3, 4) {
        v.push(g.rng.below(n) as u8);
    }
    v
}

pub fn signal_op(g: &mut G) -> Option<Op> {
    if g.sigsrc.is_empty() || g.rng.chance(1, 12) {
        let id = g.fresh();
        g.sigsrc.push(id);
        let sigs = subset(g);
        // now and then the callback itself raises signals (also ones reported in this drain)
        let mut script = vec![];
        if g.rng.chance(1, 3) {
            for _ in 0..g.rng.range(1, 3) {
                let n = g.rng.range(0, 2);
                let ops = (0..n).map(|_| if g.rng.chance(1, 4) { Op::Kill(g.rng.below(g.nsig) as u8) } else { Op::Raise(g.rng.below(g.nsig) as u8) }).collect();
                script.push(CbEntry { ops, ret: Ret::Continue });
            }
        }
        return Some(Op::SigNew { id, sigs, script });
    }
    // the two most recent sources can be alive together
    let id = if g.sigsrc.len() >= 2 && g.rng.chance(1, 3) { g.sigsrc[g.sigsrc.len() - 2] } else { *g.sigsrc.last().unwrap() };
    Some(match g.rng.below(16) {
        0 | 1 => Op::SigAdd(id, subset(g)),
        2 | 3 => Op::SigRemove(id, subset(g)),
        4 | 5 | 6 => Op::SigSet(id, subset(g)),
        7 => Op::Disable(id),
        8 => Op::Enable(id),
        9 => {
            if g.rng.chance(1, 2) {
                Op::Remove(id)
            } else {
                Op::DropDispatcher(id)
            }
        }
        10 | 11 | 12 => Op::Dispatch(Timeout::Zero),
        _ => {
            let s = g.rng.below(g.nsig) as u8;
            if g.nsig > crate::sig::CHLD as u64 && g.rng.chance(1, 4) {
                Op::SpawnChild
            } else if g.rng.chance(1, 3) {
                Op::Kill(s)
            } else {
                Op::Raise(s)
            }
        }
    })
}

/// Retarget some CancelIdle / DropIdle operations to any idle of the whole program, including
/// ones inserted later (an earlier idle cancelling a later idle of the same dispatch).
pub fn retarget_idles(g: &mut G, ops: &mut Vec<Op>) {
    let all = if g.idles.is_empty() { vec![0] } else { g.idles.clone() };
    fn rec(g: &mut G, all: &[Id], ops: &mut Vec<Op>) {
        let srcs: Vec<Id> = g.srcs.iter().map(|s| s.0).collect();
        for op in ops.iter_mut() {
            match op {
                Op::CancelIdle(x) | Op::DropIdle(x) => {
                    if g.rng.chance(1, 2) {
                        *x = *g.rng.pick(all);
                    }
                }
                // token and cause operations may also aim at sources created later in the
                // program (generation only knows the earlier ones)
                Op::Remove(x) | Op::Disable(x) | Op::Enable(x) | Op::Update(x) | Op::Ping(x) | Op::Send(x) | Op::DropPing(x) | Op::DropSender(x) => {
                    if !srcs.is_empty() && g.rng.chance(1, 6) {
                        *x = *g.rng.pick(&srcs);
                    }
                }
                _ => {}
            }
            for sub in op.scripts_mut() {
                rec(g, all, sub);
            }
        }
    }
    rec(g, &all, ops);
    // and sometimes make an idle cancel the idle inserted right after it
    let idx: Vec<usize> = ops.iter().enumerate().filter(|(_, o)| matches!(o, Op::InsertIdle { .. })).map(|(i, _)| i).collect();
    for w in idx.windows(2) {
        if g.rng.chance(1, 3) {
            let later = if let Op::InsertIdle { id, .. } = &ops[w[1]] { *id } else { continue };
            if let Op::InsertIdle { ops: o, .. } = &mut ops[w[0]] {
                o.push(Op::CancelIdle(later));
            }
        }
    }
}
