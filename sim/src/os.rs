//! Thin libc helpers. File descriptor numbers never reach a trace or a log.

use std::os::fd::{AsRawFd, FromRawFd, OwnedFd, RawFd};

/// A failure of the harness itself: never dressed up as a violation or as a pass.
pub fn harness_fatal(msg: &str) -> ! {
    eprintln!("HARNESS-ERROR {}: {}", msg, std::io::Error::last_os_error());
    std::process::exit(2)
}

pub fn socketpair() -> (OwnedFd, OwnedFd) {
    let mut fds = [0i32; 2];
    let r = unsafe {
        libc::socketpair(
            libc::AF_UNIX,
            libc::SOCK_STREAM | libc::SOCK_CLOEXEC | libc::SOCK_NONBLOCK,
            0,
            fds.as_mut_ptr(),
        )
    };
    if r != 0 {
        harness_fatal("socketpair failed (fd leak?)");
    }
    unsafe { (OwnedFd::from_raw_fd(fds[0]), OwnedFd::from_raw_fd(fds[1])) }
}

/// (read end, write end), both non-blocking
pub fn pipe() -> (OwnedFd, OwnedFd) {
    let mut fds = [0i32; 2];
    let r = unsafe { libc::pipe2(fds.as_mut_ptr(), libc::O_CLOEXEC | libc::O_NONBLOCK) };
    if r != 0 {
        harness_fatal("pipe2 failed (fd leak?)");
    }
    unsafe { (OwnedFd::from_raw_fd(fds[0]), OwnedFd::from_raw_fd(fds[1])) }
}

pub fn set_sndbuf(fd: RawFd, n: i32) {
    unsafe {
        libc::setsockopt(
            fd,
            libc::SOL_SOCKET,
            libc::SO_SNDBUF,
            &n as *const i32 as *const libc::c_void,
            4,
        );
    }
}

pub fn set_pipe_size(fd: RawFd, n: i32) {
    unsafe {
        libc::fcntl(fd, libc::F_SETPIPE_SZ, n);
    }
}

pub fn set_nonblocking(fd: RawFd, nb: bool) {
    unsafe {
        let fl = libc::fcntl(fd, libc::F_GETFL);
        let nfl = if nb { fl | libc::O_NONBLOCK } else { fl & !libc::O_NONBLOCK };
        libc::fcntl(fd, libc::F_SETFL, nfl);
    }
}

pub fn is_nonblocking(fd: RawFd) -> bool {
    unsafe { libc::fcntl(fd, libc::F_GETFL) & libc::O_NONBLOCK != 0 }
}

/// write up to `data.len()` bytes; returns bytes written (0 on EAGAIN), -1 on other errors
pub fn write(fd: RawFd, data: &[u8]) -> isize {
    let r = unsafe { libc::write(fd, data.as_ptr() as *const libc::c_void, data.len()) };
    if r < 0 {
        let e = std::io::Error::last_os_error();
        if e.kind() == std::io::ErrorKind::WouldBlock {
            0
        } else {
            -1
        }
    } else {
        r
    }
}

/// read up to n bytes; returns the bytes (empty on EAGAIN or EOF)
pub fn read(fd: RawFd, n: usize) -> Vec<u8> {
    let mut buf = vec![0u8; n];
    let r = unsafe { libc::read(fd, buf.as_mut_ptr() as *mut libc::c_void, n) };
    if r <= 0 {
        buf.clear();
    } else {
        buf.truncate(r as usize);
    }
    buf
}

pub const PIN: i16 = libc::POLLIN;
pub const POUT: i16 = libc::POLLOUT;
pub const PHUP: i16 = libc::POLLHUP;
pub const PERR: i16 = libc::POLLERR;
pub const PPRI: i16 = libc::POLLPRI;

/// Ground truth readiness of one fd: poll(2) with a zero timeout.
pub fn poll_revents(fd: RawFd) -> i16 {
    let mut p = libc::pollfd { fd, events: PIN | POUT | PPRI, revents: 0 };
    let r = unsafe { libc::poll(&mut p, 1, 0) };
    if r < 0 {
        return 0;
    }
    p.revents
}

/// One entry of the epoll interest list as the kernel reports it.
#[derive(Clone, Debug, PartialEq, Eq, PartialOrd, Ord)]
pub struct EpollEntry {
    pub tfd: i32,
    pub events: u32,
    pub data: u64,
}

pub fn epoll_table(epfd: RawFd) -> Vec<EpollEntry> {
    let s = std::fs::read_to_string(format!("/proc/self/fdinfo/{}", epfd)).unwrap_or_default();
    let mut out = Vec::new();
    for line in s.lines() {
        if let Some(rest) = line.strip_prefix("tfd:") {
            let mut it = rest.split_whitespace();
            let tfd: i32 = it.next().and_then(|x| x.parse().ok()).unwrap_or(-1);
            let mut events = 0u32;
            let mut data = 0u64;
            while let Some(k) = it.next() {
                match k {
                    "events:" => events = it.next().and_then(|x| u32::from_str_radix(x, 16).ok()).unwrap_or(0),
                    "data:" => data = it.next().and_then(|x| u64::from_str_radix(x, 16).ok()).unwrap_or(0),
                    _ => {}
                }
            }
            out.push(EpollEntry { tfd, events, data });
        }
    }
    out.sort();
    out
}

/// The eventfd counter of `fd`, read without consuming it.
pub fn eventfd_count(fd: RawFd) -> u64 {
    let s = std::fs::read_to_string(format!("/proc/self/fdinfo/{}", fd)).unwrap_or_default();
    for line in s.lines() {
        if let Some(rest) = line.strip_prefix("eventfd-count:") {
            return u64::from_str_radix(rest.trim(), 16).unwrap_or(0);
        }
    }
    0
}

/// Find polling's notifier eventfd: the entry of the epoll set keyed u64::MAX that is an eventfd.
pub fn find_notifier(epfd: RawFd) -> Option<RawFd> {
    for e in epoll_table(epfd) {
        if e.data == u64::MAX {
            if let Ok(l) = std::fs::read_link(format!("/proc/self/fd/{}", e.tfd)) {
                if l.to_string_lossy().contains("eventfd") {
                    return Some(e.tfd);
                }
            }
        }
    }
    None
}

pub fn raw(fd: &OwnedFd) -> RawFd {
    fd.as_raw_fd()
}

pub fn blocked_signals() -> Vec<i32> {
    let mut set: libc::sigset_t = unsafe { std::mem::zeroed() };
    unsafe {
        libc::pthread_sigmask(libc::SIG_BLOCK, std::ptr::null(), &mut set);
    }
    (1..32).filter(|s| unsafe { libc::sigismember(&set, *s) } == 1).collect()
}
