//! Simulator state: the real handles the program holds and, next to them, the small
//! behavioural reference model (no slots, generations, heaps or RefCells).

use std::cell::Cell;
use std::collections::{BTreeMap, BTreeSet, VecDeque};
use std::os::fd::OwnedFd;
use std::rc::Rc;

use calloop::channel::{Sender, SyncSender};
use calloop::generic::Generic;
use calloop::ping::Ping;
use calloop::timer::Timer;
use calloop::{Dispatcher, Idle, LoopHandle, LoopSignal, RegistrationToken};

use crate::program::{CbEntry, EnvEvent, Id, Op};
use crate::sim::Tag;
use crate::wrap::{Wrap, WrapShared};

/// An fd shared between a calloop source and the simulator (which needs it for ground truth
/// `poll(2)` and keeps it open after the source is gone - the harsher case for stale epoll
/// registrations, since a closed fd would silently leave the epoll set).
#[derive(Debug, Clone)]
pub struct SharedFd(pub Rc<OwnedFd>);

impl std::os::fd::AsFd for SharedFd {
    fn as_fd(&self) -> std::os::fd::BorrowedFd<'_> {
        self.0.as_fd()
    }
}

/// What the program inserts for an fd source: a source of its own that holds a `Generic` by
/// value, forwards everything to it and, when the callback asks for it, unwraps it *while it is
/// registered* (handing the IO object back) and removes itself - the only way user code gets to
/// call `Generic::unwrap` on a registered source.
pub struct Holder {
    pub g: Option<Generic<SharedFd>>,
    pub sh: Rc<crate::wrap::WrapShared>,
}

impl calloop::EventSource for Holder {
    type Event = calloop::Readiness;
    type Metadata = calloop::generic::NoIoDrop<SharedFd>;
    type Ret = std::io::Result<calloop::PostAction>;
    type Error = std::io::Error;

    fn process_events<F>(&mut self, readiness: calloop::Readiness, token: calloop::Token, callback: F) -> Result<calloop::PostAction, Self::Error>
    where
        F: FnMut(Self::Event, &mut Self::Metadata) -> Self::Ret,
    {
        let Some(g) = &mut self.g else { return Ok(calloop::PostAction::Continue) };
        let r = g.process_events(readiness, token, callback)?;
        if self.sh.unwrap_now.replace(false) {
            let io = self.g.take().unwrap().unwrap();
            drop(io);
            self.sh.unwrapped.set(true);
            return Ok(calloop::PostAction::Remove);
        }
        Ok(r)
    }

    fn register(&mut self, poll: &mut calloop::Poll, tf: &mut calloop::TokenFactory) -> calloop::Result<()> {
        match &mut self.g {
            Some(g) => g.register(poll, tf),
            None => Ok(()),
        }
    }

    fn reregister(&mut self, poll: &mut calloop::Poll, tf: &mut calloop::TokenFactory) -> calloop::Result<()> {
        match &mut self.g {
            Some(g) => g.reregister(poll, tf),
            None => Ok(()),
        }
    }

    fn unregister(&mut self, poll: &mut calloop::Poll) -> calloop::Result<()> {
        match &mut self.g {
            Some(g) => g.unregister(poll),
            None => Ok(()),
        }
    }
}

pub type GenSrc = Wrap<Holder>;
pub type TimerSrc = Wrap<Timer>;

#[derive(Clone, Copy, Debug, PartialEq, Eq)]
pub enum Deferred {
    Disable,
    Reregister,
}

#[derive(Clone, Copy, Debug, PartialEq, Eq)]
pub enum FdKind {
    Sock,
    PipeR,
    PipeW,
}

pub struct PingK {
    pub handles: Vec<Ping>,
    /// pings written since the last drain
    pub pending: bool,
    pub close_written: bool,
    /// close marker was in the counter when the current process_events drained it
    pub closed_at_pe: bool,
    pub pending_at_pe: bool,
    pub cb_in_pe: u32,
}

pub struct ChanK {
    pub senders: Vec<Sender<u64>>,
    pub ssenders: Vec<SyncSender<u64>>,
    pub bound: Option<u32>,
    pub queue: VecDeque<u64>,
    pub next_val: u64,
    pub closed_delivered: bool,
    pub msgs_in_pe: u32,
}

impl ChanK {
    pub fn n_senders(&self) -> usize {
        self.senders.len() + self.ssenders.len()
    }
}

pub struct TimerK {
    pub disp: Option<Dispatcher<'static, TimerSrc, Tag>>,
    /// the Timer's own deadline (virtual ns); None = unrepresentable
    pub deadline: Option<u64>,
    /// an arming is registered and has not fired
    pub armed: bool,
    pub arm_no: u32,
    pub fired_arm: Option<u32>,
    /// set when the callback returned Drop / overflowed: process_events must return Remove
    pub expect_remove: bool,
}

pub struct GenK {
    pub own: SharedFd,
    pub peer: Option<OwnedFd>,
    pub fdkind: FdKind,
    /// as configured on the source
    pub interest: u8,
    pub mode: u8,
    /// as last (re)registered with the poller
    pub reg_interest: u8,
    pub reg_mode: u8,
    pub oneshot_armed: bool,
    /// edge: a report is owed (registered while ready, or clean transition since last report)
    pub edge_owed: bool,
    /// edge, per direction: clean not-ready -> ready transition since the last report
    pub edge_r: bool,
    pub edge_w: bool,
    pub disp: Option<Dispatcher<'static, GenSrc, Tag>>,
    /// source handed back by TakeSource, fd can be re-inserted
    pub released: bool,
    pub ret_in_pe: Option<crate::program::Ret>,
    /// a regular file: the poller rejects it
    pub unusable: bool,
    pub written: u64,
    pub read: u64,
}

pub enum K {
    Ping(PingK),
    Channel(ChanK),
    Timer(TimerK),
    Generic(GenK),
    Life(crate::life::LifeK),
    Exec(crate::exec::ExecK),
    Stream(crate::exec::StreamK),
    Trans(crate::transient::TransK),
    Sig(crate::sig::SigK),
    Comp(crate::composite::CompK),
    /// insertion failed before a kind-specific state made sense
    Failed,
}

impl K {
    pub fn name(&self) -> &'static str {
        match self {
            K::Ping(_) => "ping",
            K::Channel(_) => "channel",
            K::Timer(_) => "timer",
            K::Generic(_) => "generic",
            K::Life(_) => "lifecycle",
            K::Exec(_) => "executor",
            K::Stream(_) => "stream",
            K::Trans(_) => "transient",
            K::Sig(_) => "signals",
            K::Comp(_) => "composite",
            K::Failed => "failed",
        }
    }
}

pub struct Src {
    pub id: Id,
    pub token: Option<RegistrationToken>,
    pub reg_key: Option<usize>,
    pub inserted: bool,
    pub enabled: bool,
    /// after an injected/natural failure on this source: any behaviour of *this* source is
    /// accepted (except a panic or an effect on another source) until it is removed
    pub indeterminate: bool,
    pub in_processing: u32,
    pub script: VecDeque<CbEntry>,
    pub sh: Rc<WrapShared>,
    pub cb_drop: Rc<Cell<u32>>,
    pub deferred: Option<Deferred>,
    /// program holds a Dispatcher clone
    pub kept: bool,
    pub k: K,
    // per dispatch
    pub cb_this_dispatch: u32,
    pub pe_this_dispatch: u32,
    pub excused: bool,
    /// the source was enabled (registered) when it was removed in / at the end of its own event
    pub enabled_when_removed: bool,
    /// reregister() calls seen when the dispatch started
    pub rereg_at_start: u32,
    /// the token this source holds was issued by a loop that has been dropped
    pub old_loop: bool,
    // history facts (for violation flags)
    pub was_disabled: bool,
    pub reenabled: bool,
    pub rereg_count_expected: u32,
    pub removed_in_own_cb: bool,
    /// its process_events returned an error in the current dispatch
    pub errored_this_dispatch: bool,
    /// expected register / reregister / unregister calls on the wrapped source (C09)
    pub exp: [u32; 3],
}

#[derive(Clone, Copy, Debug, PartialEq, Eq)]
pub enum IdleState {
    Pending,
    Cancelled,
    Ran,
}

pub struct IdleSt {
    pub handle: Option<Idle<'static>>,
    pub state: IdleState,
    pub ops: Option<Vec<Op>>,
    pub inserted_in_dispatch: Option<u64>,
    pub inserted_in_idle_phase: bool,
    pub drop_ctr: Rc<Cell<u32>>,
    pub running: bool,
}

#[derive(Clone, Copy, Debug, PartialEq, Eq)]
pub enum Must {
    /// a callback invocation is owed
    Callback,
    /// only processing is owed (close marker of a ping without a ping)
    Process,
}

#[derive(Default)]
pub struct St {
    pub handle: Option<LoopHandle<'static, Tag>>,
    pub signal: Option<LoopSignal>,
    pub loop_alive: bool,
    pub srcs: BTreeMap<Id, Src>,
    pub idles: BTreeMap<Id, IdleSt>,
    /// pending idles in insertion order
    pub idle_queue: Vec<Id>,
    pub key_to_id: BTreeMap<usize, Id>,
    pub env: VecDeque<EnvEvent>,
    pub must: BTreeMap<Id, Must>,
    pub cur_event: Vec<Id>,
    pub idle_phase: bool,
    pub idle_expected: Vec<Id>,
    pub timer_fire_deadlines: Vec<u64>,
    pub cur_idle: Option<Id>,
    /// ids whose slot may legitimately still be occupied / freed late (none today)
    pub dispatch_error_seen: bool,
    pub any_dispatch_error: bool,
    pub dup_fds: BTreeSet<Id>,
    /// C12: earliest armed deadline (model) when the wait was entered
    pub wait_next_deadline: Option<u64>,
    /// C14: a lifecycle source returned a synthetic event in this dispatch
    pub wait_synthetic: bool,
    pub live_adapters: usize,
    pub adapters_indeterminate: usize,
    /// heap entries the model knows about beyond armed timers (TimeoutFuture etc.)
    pub extra_timer_entries: usize,
    /// number of inserted+enabled lifecycle sources, None = not tracked in this run
    pub lifecycle_expected: Option<usize>,
    /// additional expected epoll entries (adapters, composite children)
    /// stop() was requested by the program since run()/block_on() started
    pub stop_requested: bool,
    /// wakeup() returned and no wait has ended since: the next (or current) wait must not sleep
    pub wakeup_outstanding: bool,
    /// virtual time the before_sleep hooks of the dispatch in progress took
    pub hook_time: u64,
    /// every (slot, generation) a token was issued for by the current loop
    pub issued_keys: std::collections::BTreeSet<usize>,
    /// a slot went through tens of thousands of reuses: generations may legitimately wrap
    pub churned: bool,
    pub extra_table: Vec<(u64, u32, Option<i32>)>,
    /// poller keys left behind by a failed multi-step registration whose source the program
    /// kept: their events belong to nobody and must reach nobody
    pub leaked_keys: std::collections::BTreeSet<usize>,
    /// the rejected sources themselves
    pub kept_rejected: Vec<Box<dyn std::any::Any>>,
    pub tasks: BTreeMap<Id, crate::exec::TaskM>,
    pub adapters: BTreeMap<Id, crate::adapter::AdapterM>,
    pub adapter_keys: BTreeMap<usize, Id>,
    pub io_tasks: BTreeMap<Id, crate::adapter::IoTaskM>,
    pub sig: crate::sig::SigGlobal,
    /// hidden Timer sources inserted by TimeoutFuture: (deadline, fired, task)
    pub hidden_timers: Vec<(u64, bool, Id)>,
    pub hidden_unknown: bool,
}

pub const KEY_SUB_MASK: usize = 0xFFFF;

pub fn reg_key_of(key: usize) -> usize {
    key & !KEY_SUB_MASK
}
