//! A program is plain data: executing it draws no random numbers, reads no real clock and
//! depends on no fd number, so `run(program)` is a pure function of the program and the code.
//! It is also the replay file.

use serde::{Deserialize, Serialize};

pub type Id = u32;

#[derive(Serialize, Deserialize, Clone, Debug, PartialEq, Default)]
pub struct Program {
    /// generator seed this program came from (informational)
    pub seed: u64,
    /// generator profile (informational)
    pub profile: String,
    /// seed of the per-dispatch batch permutation; 0 = canonical (sorted by key) order
    pub perm_seed: u64,
    /// check the kernel epoll table every n-th step (0 = never)
    pub table_every: u32,
    pub steps: Vec<Op>,
    /// injected registration faults: fail the n-th call of the seam
    pub faults: Vec<Fault>,
    /// environment events: executed when the virtual clock passes `at` (inside a wait or an
    /// Advance), i.e. causes that arrive while the loop sleeps
    pub env: Vec<EnvEvent>,
}

#[derive(Serialize, Deserialize, Clone, Debug, PartialEq)]
pub struct Fault {
    /// 0 = any seam call, 1 = register, 2 = reregister, 3 = unregister
    pub site: u8,
    /// which call (0-based, counted per run over the calls matching `site`)
    pub nth: u32,
    /// errno to return
    pub errno: i32,
}

#[derive(Serialize, Deserialize, Clone, Debug, PartialEq)]
pub struct EnvEvent {
    pub at: u64,
    pub op: Op,
}

#[derive(Serialize, Deserialize, Clone, Debug, PartialEq, Default)]
pub struct CbEntry {
    pub ops: Vec<Op>,
    pub ret: Ret,
}

pub type Script = Vec<CbEntry>;

/// What a scripted callback returns (interpreted per source kind).
#[derive(Serialize, Deserialize, Clone, Copy, Debug, PartialEq, Default)]
pub enum Ret {
    #[default]
    Continue,
    Reregister,
    Disable,
    Remove,
    /// callback error (generic sources) / process_events error (scripted wrapper)
    Err,
    /// fd sources: the owner unwraps the still registered Generic (keeping the fd open) and
    /// removes itself
    UnwrapRemove,
    /// transient parents: the child returns Disable and the parent itself returns Disable too
    /// (instead of passing the wrapper's Reregister on), so that the loop unregisters the
    /// parent with the child still registered
    DisableBoth,
    /// timers
    TDrop,
    /// timers: reschedule to this absolute virtual time (ns)
    TAt(u64),
    /// timers: reschedule this far from now (ns); u64::MAX = Duration::MAX
    TIn(u64),
}

#[derive(Serialize, Deserialize, Clone, Copy, Debug, PartialEq)]
pub enum Deadline {
    Immediate,
    /// from now (ns); u64::MAX = Duration::MAX (unrepresentable deadline)
    In(u64),
    /// absolute virtual time (ns)
    At(u64),
}

#[derive(Serialize, Deserialize, Clone, Copy, Debug, PartialEq)]
pub enum FdSpec {
    /// one end of a fresh socketpair (peer kept by the program)
    Sock,
    /// read end of a fresh pipe
    PipeR,
    /// write end of a fresh pipe
    PipeW,
    /// the fd that source `Id` uses (duplicate registration, expected to fail)
    DupOf(Id),
    /// the fd handed back by `TakeSource(Id)` (re-insertion of a released fd)
    Released(Id),
    /// a descriptor that has been closed (expected to fail)
    Closed,
    /// a regular file (epoll rejects it, expected to fail)
    RegularFile,
}

#[derive(Serialize, Deserialize, Clone, Copy, Debug, PartialEq)]
pub enum Timeout {
    Zero,
    /// ns
    Some(u64),
    None,
    /// Duration::MAX: a user timeout that cannot be added to any instant
    Max,
}

/// Child of a composite source.
#[derive(Serialize, Deserialize, Clone, Debug, PartialEq)]
pub enum ChildSpec {
    /// TransientSource<PingSource>
    Ping,
    /// TransientSource<Generic> on a socketpair end, level triggered, READ
    Sock,
    /// TransientSource<Timer>
    Timer(Deadline),
    /// (replacements only) a new Generic over the *same* fd as the child it replaces; a fresh
    /// pipe when there is none
    SameFd,
    /// a Timer created with Duration::MAX: no deadline, it registers nothing (and takes no
    /// sub-token) until it is armed later (composite: `ArmChildTimer`)
    ParkedTimer,
    /// a user-written sub-source around a Timer that registers nothing at all (no sub-token)
    /// while it is parked; armed like ParkedTimer, but only between dispatches - a sub-source
    /// that changes how many tokens it takes moves its later siblings, which is its author's
    /// business while events are in flight
    MaybeTimer,
    /// (TransientSource harness) a user-written child over a pipe that calls back for every
    /// event it is handed, whatever its registration state
    Eager,
}

#[derive(Serialize, Deserialize, Clone, Debug, PartialEq)]
pub enum Op {
    // ---- insertion
    InsertPing { id: Id, script: Script },
    InsertChannel { id: Id, bound: Option<u32>, script: Script },
    /// keep = also keep a Dispatcher clone in the program (needed by TimerSet)
    InsertTimer { id: Id, dl: Deadline, keep: bool, script: Script },
    InsertGeneric { id: Id, fd: FdSpec, interest: u8, mode: u8, keep: bool, script: Script },
    InsertExecutor { id: Id, script: Script },
    InsertStream { id: Id, script: Script },
    /// harness source written the way the calloop book documents: n transient children,
    /// one sub-token each
    InsertComposite { id: Id, children: Vec<ChildSpec>, script: Script },
    /// harness source that opts into before_sleep / before_handle_events; `synth` lists,
    /// per dispatch, whether before_sleep returns a synthetic event
    /// `two`: a second ping child on a third sub-token; `fail_step2`: its registration fails
    /// at that last step (after the first child went into the poller); `keep_rejected`: the
    /// program keeps the source a failed insertion hands back instead of dropping it (what is
    /// already registered then stays in the poller under the slot's old generation)
    InsertLifecycle {
        id: Id,
        with_ping: bool,
        with_timer: Option<Deadline>,
        synth: Vec<bool>,
        script: Script,
        #[serde(default)]
        two: bool,
        #[serde(default)]
        fail_step2: bool,
        #[serde(default)]
        keep_rejected: bool,
        /// a level-triggered socket registered directly on a sub-token of its own; with
        /// `synth_on_sock` the synthetic events of before_sleep carry that same token (data
        /// already buffered in user space, the Wayland pattern), so a polled and a synthetic
        /// event for one token can meet in one dispatch
        #[serde(default)]
        sock: bool,
        #[serde(default)]
        synth_on_sock: bool,
        /// the source keeps the token of its synthetic events across unregister() (nothing says
        /// a source has to forget its tokens; calloop's own sources do)
        #[serde(default)]
        forgetful: bool,
        /// virtual nanoseconds the source's before_sleep hook takes (it flushes, takes a lock...)
        #[serde(default)]
        slow: u64,
    },
    /// a parent holding TransientSource<child>; child over a pipe read end or a timer
    InsertTransient { id: Id, child: ChildSpec, from_default: bool, script: Script },
    // ---- token operations (any token ever issued, live or stale)
    Remove(Id),
    Disable(Id),
    Enable(Id),
    Update(Id),
    // ---- cause producing operations
    Ping(Id),
    ClonePing(Id),
    DropPing(Id),
    /// composite: ping child n
    PingChild(Id, u32),
    /// composite: arm the parked timer child n for `ns` from now (set_duration through the
    /// wrapper's map(), then update() of the parent)
    ArmChildTimer(Id, u32, u64),
    /// composite: drop the Ping handle of child n (child closes -> Remove -> transient)
    DropChildPing(Id, u32),
    Send(Id),
    CloneSender(Id),
    DropSender(Id),
    /// write n bytes into the peer end (makes the source's fd readable)
    PeerWrite(Id, u32),
    /// composite: write into the peer of child n
    PeerWriteChild(Id, u32, u32),
    /// read n bytes from the peer end (makes the source's fd writable again)
    PeerRead(Id, u32),
    /// fill the peer-directed buffer so that the source's fd is not writable
    FillOut(Id),
    PeerClose(Id),
    /// read n bytes from the source's own fd (consumes readable readiness)
    OwnRead(Id, u32),
    /// Dispatcher::as_source_mut().set_deadline(..) (no update)
    TimerSet(Id, Deadline),
    /// change interest/mode of a kept generic (no update)
    GenericSet(Id, u8, u8),
    // ---- executor / stream
    Schedule { exec: Id, task: Id, pendings: u32, script: Vec<Vec<Op>> },
    Wake(Id),
    StreamPush(Id),
    /// a backlog: n items at once (around and beyond any per-dispatch batch bound), optionally
    /// followed by the end of the stream
    StreamPushMany(Id, u32, bool),
    StreamEnd(Id),
    // ---- transient
    TrRemove(Id),
    TrReplace(Id, ChildSpec),
    TrMap(Id),
    /// make the child's next process_events return this
    TrChildRet(Id, Ret),
    // ---- idles
    InsertIdle { id: Id, ops: Vec<Op> },
    CancelIdle(Id),
    DropIdle(Id),
    // ---- adapters
    AdaptIo {
        id: Id,
        fd: FdSpec,
        borrowed: bool,
        blocking: bool,
        /// the IO object's flush() reports WouldBlock while the fd is not writable (as a
        /// buffering wrapper with something left to drain would)
        #[serde(default)]
        flushy: bool,
    },
    AdapterIntoInner(Id),
    AdapterDrop(Id),
    // ---- loop
    Wakeup,
    Advance(u64),
    Dispatch(Timeout),
    /// Dispatcher::into_source_inner on a kept dispatcher (after removal)
    TakeSource(Id),
    DropDispatcher(Id),
    DropLoop,
    /// LoopSignal::stop(), from anywhere (a callback of the batch in progress included): run()
    /// and block_on() end after the iteration in progress, which is carried out in full
    Stop,
    /// after DropLoop: a fresh EventLoop; everything the program still holds (kept
    /// dispatchers, ping and channel handles) outlived the first one
    NewLoop,
    /// register a kept Dispatcher (of a source that is not inserted) again, in the current loop
    ReinsertKept(Id),
    // ---- scripted wrapper failures: make the n-th next call of the source's
    // register(1)/reregister(2)/unregister(3)/process_events(4)/before_sleep(5) fail
    FailNext { id: Id, what: u8, nth: u32 },
    // ---- signals (sigsim)
    SigNew { id: Id, sigs: Vec<u8>, script: Script },
    SigAdd(Id, Vec<u8>),
    SigRemove(Id, Vec<u8>),
    SigSet(Id, Vec<u8>),
    Raise(u8),
    /// the same signal sent to the process (kill(getpid())) instead of the thread: a second,
    /// separate pending instance
    Kill(u8),
    Nop,
    /// n sends in a row (queue lengths around the 1024 batch limit)
    SendMany(Id, u32),
    /// n trivially ready futures scheduled in a row, task ids base..base+n
    ScheduleMany { exec: Id, base: Id, n: u32 },
    /// a future on executor `exec` that takes adapter `adapter` and moves `total` bytes in
    /// chunks of `chunk`: kind 0 = AsyncRead, 1 = AsyncWrite, 2 = readable().await then read,
    /// 3 = writable().await then write, 4 = vectored read, 5 = vectored write + flush;
    /// `then`: 0 = give the adapter back, 1 = drop it, 2 = into_inner
    AdapterTask { exec: Id, task: Id, adapter: Id, kind: u8, total: u32, chunk: u32, then: u8 },
    AdapterPeerWrite(Id, u32),
    AdapterPeerRead(Id, u32),
    AdapterPeerClose(Id),
    /// hand a held adapter to an inserted source, which drops it from inside its next
    /// unregister (0) / reregister (1) / register (2) call
    AdapterGiveTo(Id, Id, u8),
    /// the peer writes its last n bytes and closes without reading what was sent to it
    AdapterPeerLastWords(Id, u32),
    /// reuse one slot n times (insert a far-away timer, remove it) while checking that tokens
    /// issued 1, 255, 256, 4095, 65535 reuses ago stay dead
    SlotChurn(u32),
    /// a future on executor `exec` that awaits a `TimeoutFuture` (which inserts a hidden Timer)
    ScheduleTimeout { exec: Id, task: Id, dl: Deadline },
    /// EventLoop::run(timeout, ..) whose per-iteration closure requests a stop after `iters`
    /// iterations (top level only)
    Run { timeout: Timeout, iters: u32 },
    /// like TrRemove / TrReplace, but the re-registration is left to a later operation on the
    /// parent (update, disable, remove ...)
    TrRemoveLazy(Id),
    /// scripted failure inside the wrapper's own re-registration: 1 = the next replacement
    /// child's register() fails, 2 = the current child's next unregister() fails
    TrChildFail(Id, u8),
    /// replace(new) + update() in which the registration of the new child fails, then the
    /// retry: update() again (C15: a failed update leaves everything ready for the retry)
    TrReplaceFailRetry(Id, ChildSpec),
    /// the parent puts a new `TransientSource::from(child)` into its (empty) slot and asks for
    /// a re-registration: the child's first registration call is reregister(), not register()
    TrAssign(Id, ChildSpec, bool),
    /// fork a child that exits at once: a kernel-sent SIGCHLD whose sender is the child
    SpawnChild,
    TrReplaceLazy(Id, ChildSpec),
    /// EventLoop::block_on(future): the future returns Pending `pendings` times; each time it
    /// either wakes itself during the poll (yield pattern) or relies on an environment Wakeup /
    /// on the loop's sources; `max_iters` bounds the iterations (the closure then stops the loop)
    BlockOn { pendings: u32, self_wake: bool, max_iters: u32 },
    /// n ping sources with ids base..base+n, all pinged (many simultaneously ready sources)
    ManyPings {
        base: Id,
        n: u32,
        /// callback script of the first of them
        #[serde(default)]
        first_script: Script,
    },
    /// remove the sources with ids base..base+n (a burst of short-lived sources going away)
    RemoveRange { base: Id, n: u32 },
    /// n idle callbacks with ids base..base+n
    ManyIdles { base: Id, n: u32 },
}

pub const INTEREST_NAMES: [&str; 4] = ["EMPTY", "READ", "WRITE", "BOTH"];
pub const MODE_NAMES: [&str; 3] = ["Level", "Edge", "OneShot"];

impl Op {
    /// Sub-operation lists nested inside this op (for the minimiser and for statistics).
    pub fn scripts_mut(&mut self) -> Vec<&mut Vec<Op>> {
        let mut out = Vec::new();
        match self {
            Op::InsertPing { script, .. }
            | Op::InsertChannel { script, .. }
            | Op::InsertTimer { script, .. }
            | Op::InsertGeneric { script, .. }
            | Op::InsertExecutor { script, .. }
            | Op::InsertStream { script, .. }
            | Op::InsertComposite { script, .. }
            | Op::InsertLifecycle { script, .. }
            | Op::InsertTransient { script, .. }
            | Op::SigNew { script, .. } => {
                for e in script.iter_mut() {
                    out.push(&mut e.ops);
                }
            }
            Op::Schedule { script, .. } => {
                for e in script.iter_mut() {
                    out.push(e);
                }
            }
            Op::InsertIdle { ops, .. } => out.push(ops),
            Op::ManyPings { first_script, .. } => {
                for e in first_script.iter_mut() {
                    out.push(&mut e.ops);
                }
            }
            _ => {}
        }
        out
    }

    pub fn script_mut(&mut self) -> Option<&mut Script> {
        match self {
            Op::InsertPing { script, .. }
            | Op::InsertChannel { script, .. }
            | Op::InsertTimer { script, .. }
            | Op::InsertGeneric { script, .. }
            | Op::InsertExecutor { script, .. }
            | Op::InsertStream { script, .. }
            | Op::InsertComposite { script, .. }
            | Op::InsertLifecycle { script, .. }
            | Op::InsertTransient { script, .. }
            | Op::SigNew { script, .. } => Some(script),
            _ => None,
        }
    }

    pub fn name(&self) -> &'static str {
        match self {
            Op::InsertPing { .. } => "InsertPing",
            Op::InsertChannel { .. } => "InsertChannel",
            Op::InsertTimer { .. } => "InsertTimer",
            Op::InsertGeneric { .. } => "InsertGeneric",
            Op::InsertExecutor { .. } => "InsertExecutor",
            Op::InsertStream { .. } => "InsertStream",
            Op::InsertComposite { .. } => "InsertComposite",
            Op::InsertLifecycle { .. } => "InsertLifecycle",
            Op::InsertTransient { .. } => "InsertTransient",
            Op::Remove(_) => "Remove",
            Op::Disable(_) => "Disable",
            Op::Enable(_) => "Enable",
            Op::Update(_) => "Update",
            Op::Ping(_) => "Ping",
            Op::ClonePing(_) => "ClonePing",
            Op::DropPing(_) => "DropPing",
            Op::PingChild(..) => "PingChild",
            Op::ArmChildTimer(..) => "ArmChildTimer",
            Op::DropChildPing(..) => "DropChildPing",
            Op::Send(_) => "Send",
            Op::CloneSender(_) => "CloneSender",
            Op::DropSender(_) => "DropSender",
            Op::PeerWrite(..) => "PeerWrite",
            Op::PeerWriteChild(..) => "PeerWriteChild",
            Op::PeerRead(..) => "PeerRead",
            Op::FillOut(_) => "FillOut",
            Op::PeerClose(_) => "PeerClose",
            Op::OwnRead(..) => "OwnRead",
            Op::TimerSet(..) => "TimerSet",
            Op::GenericSet(..) => "GenericSet",
            Op::Schedule { .. } => "Schedule",
            Op::Wake(_) => "Wake",
            Op::StreamPush(_) => "StreamPush",
            Op::StreamPushMany(..) => "StreamPushMany",
            Op::StreamEnd(_) => "StreamEnd",
            Op::TrRemove(_) => "TrRemove",
            Op::TrReplace(..) => "TrReplace",
            Op::TrMap(_) => "TrMap",
            Op::TrChildRet(..) => "TrChildRet",
            Op::InsertIdle { .. } => "InsertIdle",
            Op::CancelIdle(_) => "CancelIdle",
            Op::DropIdle(_) => "DropIdle",
            Op::AdaptIo { .. } => "AdaptIo",
            Op::AdapterIntoInner(_) => "AdapterIntoInner",
            Op::AdapterDrop(_) => "AdapterDrop",
            Op::Wakeup => "Wakeup",
            Op::Advance(_) => "Advance",
            Op::Dispatch(_) => "Dispatch",
            Op::TakeSource(_) => "TakeSource",
            Op::DropDispatcher(_) => "DropDispatcher",
            Op::DropLoop => "DropLoop",
            Op::Stop => "Stop",
            Op::NewLoop => "NewLoop",
            Op::ReinsertKept(_) => "ReinsertKept",
            Op::FailNext { .. } => "FailNext",
            Op::SigNew { .. } => "SigNew",
            Op::SigAdd(..) => "SigAdd",
            Op::SigRemove(..) => "SigRemove",
            Op::SigSet(..) => "SigSet",
            Op::Raise(_) => "Raise",
            Op::Kill(_) => "Kill",
            Op::Nop => "Nop",
            Op::SendMany(..) => "SendMany",
            Op::ScheduleMany { .. } => "ScheduleMany",
            Op::AdapterTask { .. } => "AdapterTask",
            Op::AdapterPeerWrite(..) => "AdapterPeerWrite",
            Op::AdapterPeerRead(..) => "AdapterPeerRead",
            Op::AdapterPeerClose(_) => "AdapterPeerClose",
            Op::AdapterGiveTo(..) => "AdapterGiveTo",
            Op::AdapterPeerLastWords(..) => "AdapterPeerLastWords",
            Op::SlotChurn(_) => "SlotChurn",
            Op::ScheduleTimeout { .. } => "ScheduleTimeout",
            Op::Run { .. } => "Run",
            Op::TrRemoveLazy(_) => "TrRemoveLazy",
            Op::TrChildFail(..) => "TrChildFail",
            Op::TrReplaceFailRetry(..) => "TrReplaceFailRetry",
            Op::TrAssign(..) => "TrAssign",
            Op::SpawnChild => "SpawnChild",
            Op::TrReplaceLazy(..) => "TrReplaceLazy",
            Op::BlockOn { .. } => "BlockOn",
            Op::ManyPings { .. } => "ManyPings",
            Op::RemoveRange { .. } => "RemoveRange",
            Op::ManyIdles { .. } => "ManyIdles",
        }
    }
}

impl Program {
    pub fn count_ops(&self) -> usize {
        fn rec(ops: &[Op]) -> usize {
            let mut n = 0;
            for op in ops {
                n += 1;
                let mut c = op.clone();
                for s in c.scripts_mut() {
                    n += rec(s);
                }
            }
            n
        }
        rec(&self.steps) + self.env.len() + self.faults.len()
    }
}
