//! Confirmation of the two thread-schedule findings on REAL std threads and REAL
//! std::sync::mpsc (no shuttle): the `point()` hook, installed on the second thread only,
//! sleeps at the named site to steer the two OS threads through the failing order.

use std::rc::Rc;
use std::sync::atomic::{AtomicU32, Ordering};
use std::sync::{Arc, Mutex};
use std::time::{Duration, Instant};

use calloop::verif::Site;
use calloop::EventLoop;

struct SleepAt(Site, u64);

impl calloop::verif::Sim for SleepAt {
    fn point(&self, site: Site) {
        if site == self.0 {
            std::thread::sleep(Duration::from_millis(self.1));
        }
    }
}

/// F02: sync_channel(0): try_send reports Full and pings; the loop drains the ping and finds
/// the queue empty; only then does the sender park in the rendezvous send.
fn f02() -> bool {
    let mut lp = EventLoop::<u32>::try_new().unwrap();
    let (tx, chan) = calloop::channel::sync_channel::<u32>(0);
    lp.handle()
        .insert_source(chan, |ev, _, got: &mut u32| {
            if let calloop::channel::Event::Msg(_) = ev {
                *got += 1;
            }
        })
        .unwrap();
    let sent = Arc::new(AtomicU32::new(0));
    let sent2 = sent.clone();
    let t = std::thread::spawn(move || {
        // between "try_send said Full, loop pinged" and the blocking send: give the loop time to
        // drain the ping
        calloop::verif::install(Some(Rc::new(SleepAt(Site::ChanSyncBlocking, 300))));
        let r = tx.send(7);
        sent2.store(if r.is_ok() { 1 } else { 2 }, Ordering::SeqCst);
    });
    let mut got = 0u32;
    let start = Instant::now();
    // the loop keeps dispatching for 2 s: a live sender + a dispatching loop must make progress
    while start.elapsed() < Duration::from_secs(2) && got == 0 {
        lp.dispatch(Duration::from_millis(100), &mut got).unwrap();
    }
    let stuck = got == 0 && sent.load(Ordering::SeqCst) == 0;
    println!("F02 on real threads: after 2 s of dispatching: messages delivered = {}, send() returned = {}", got, sent.load(Ordering::SeqCst) != 0);
    drop(lp); // releases the sender (Disconnected)
    let _ = t.join();
    stuck
}

/// F12: a waker thread is between async-task's "scheduled" mark and the enqueue while the loop
/// thread removes (drops) the executor.
fn f12() -> bool {
    struct Fut {
        slot: Arc<Mutex<Option<std::task::Waker>>>,
        drops: Arc<AtomicU32>,
    }
    impl std::future::Future for Fut {
        type Output = ();
        fn poll(self: std::pin::Pin<&mut Self>, cx: &mut std::task::Context<'_>) -> std::task::Poll<()> {
            *self.slot.lock().unwrap() = Some(cx.waker().clone());
            std::task::Poll::Pending
        }
    }
    impl Drop for Fut {
        fn drop(&mut self) {
            self.drops.fetch_add(1, Ordering::SeqCst);
        }
    }
    let mut lp = EventLoop::<()>::try_new().unwrap();
    let (exec, sched) = calloop::futures::executor::<()>().unwrap();
    let tok = lp.handle().insert_source(exec, |_, _, _| {}).unwrap();
    let slot = Arc::new(Mutex::new(None));
    let drops = Arc::new(AtomicU32::new(0));
    sched.schedule(Fut { slot: slot.clone(), drops: drops.clone() }).unwrap();
    lp.dispatch(Duration::ZERO, &mut ()).unwrap(); // first poll: the waker is stashed
    let w = slot.lock().unwrap().take().expect("future was polled");
    let t = std::thread::spawn(move || {
        // the schedule function runs on this thread: sleep right before the enqueue
        calloop::verif::install(Some(Rc::new(SleepAt(Site::ExecEnqueue, 300))));
        w.wake();
    });
    std::thread::sleep(Duration::from_millis(100)); // the waker thread is inside wake() now
    lp.handle().remove(tok); // drops the executor: wakes its tasks, drains the (empty) queue
    let _ = t.join(); // the late enqueue happens here
    drop(sched);
    drop(slot);
    drop(lp);
    let d = drops.load(Ordering::SeqCst);
    println!("F12 on real threads: executor, scheduler, waker and loop are gone; the future was dropped {} time(s)", d);
    d == 0
}

pub fn main(which: &str) -> i32 {
    let ok = match which {
        "F02" => f02(),
        "F12" => f12(),
        _ => {
            eprintln!("usage: dsim confirm F02|F12");
            return 2;
        }
    };
    println!("{}: {}", which, if ok { "CONFIRMED on real std threads" } else { "NOT CONFIRMED" });
    if ok {
        0
    } else {
        1
    }
}
