//! C19 harness: the `Signals` source in a strictly single-threaded worker process. Counting
//! handlers are installed for the whole signal universe so that "normal disposition" is
//! observable and never fatal; signals are sent with raise() (synchronous when unblocked).

use std::cell::Cell;
use std::collections::BTreeSet;
use std::rc::Rc;
use std::sync::atomic::{AtomicU32, Ordering};

use calloop::signals::{Signal, Signals};
use calloop::Dispatcher;

use crate::model::*;
use crate::ops::{finish_insert, guarded, new_src, DropCtr};
use crate::program::*;
use crate::sim::*;
use crate::wrap::{Wrap, WrapShared};

/// index -> signal
pub const N_SIG: usize = 11;
/// index of SIGCHLD (the one signal of the universe the kernel itself sends: a child exits)
pub const CHLD: usize = 10;
/// signals nothing else in this process uses (not ALRM/PROF: the watchdogs; not TERM/INT: the
/// harness must stay killable; not PIPE: the driver's pipes; CHLD only reaches a worker from the
/// children the program itself spawns)
pub const UNIVERSE: [(i32, Signal); N_SIG] = [
    (libc::SIGUSR1, Signal::SIGUSR1),
    (libc::SIGUSR2, Signal::SIGUSR2),
    (libc::SIGWINCH, Signal::SIGWINCH),
    (libc::SIGURG, Signal::SIGURG),
    (libc::SIGIO, Signal::SIGIO),
    (libc::SIGVTALRM, Signal::SIGVTALRM),
    (libc::SIGHUP, Signal::SIGHUP),
    (libc::SIGQUIT, Signal::SIGQUIT),
    (libc::SIGXFSZ, Signal::SIGXFSZ),
    (libc::SIGXCPU, Signal::SIGXCPU),
    (libc::SIGCHLD, Signal::SIGCHLD),
];

#[allow(clippy::declare_interior_mutable_const)]
const Z: AtomicU32 = AtomicU32::new(0);
static HITS: [AtomicU32; N_SIG] = [Z; N_SIG];

extern "C" fn handler(sig: i32) {
    for (i, (n, _)) in UNIVERSE.iter().enumerate() {
        if *n == sig {
            HITS[i].fetch_add(1, Ordering::SeqCst);
        }
    }
}

pub fn install_handlers() {
    for (n, _) in UNIVERSE.iter() {
        unsafe {
            libc::signal(*n, handler as usize);
        }
    }
}

fn hits() -> [u32; N_SIG] {
    std::array::from_fn(|i| HITS[i].load(Ordering::SeqCst))
}

pub struct SigK {
    pub disp: Option<Dispatcher<'static, Wrap<Signals>, Tag>>,
    /// indices into UNIVERSE
    pub configured: BTreeSet<u8>,
    /// a raised instance is waiting (standard signals coalesce)
    /// per signal: bit 1 = a thread-directed instance is pending, bit 2 = a process-directed one
    /// (standard signals do not queue, but the two pending sets are separate)
    pub pending: [u8; N_SIG],
    pub pending_at_wait: [u8; N_SIG],
    /// the source object still exists (its Drop unblocks the mask)
    pub alive: bool,
}

#[derive(Default)]
pub struct SigGlobal {
    /// handler hits at the start of the run
    pub base: [u32; N_SIG],
    /// hits the model expects since then
    pub expected: [u32; N_SIG],
    pub used: bool,
    /// a child of ours exited and its SIGCHLD has not been handed out yet: its pid
    pub chld_pid: Option<u32>,
}

fn to_signals(s: &[u8]) -> Vec<Signal> {
    s.iter().filter(|i| (**i as usize) < N_SIG).map(|i| UNIVERSE[*i as usize].1).collect()
}

fn blocked_in_universe() -> BTreeSet<u8> {
    let b = crate::os::blocked_signals();
    (0..N_SIG as u8).filter(|i| b.contains(&UNIVERSE[*i as usize].0)).collect()
}

/// the Signals objects that exist (at most two, always with disjoint sets: what one signalfd
/// reads the other cannot, so overlapping sets have no defined owner)
fn live_sources(st: &St) -> Vec<Id> {
    st.srcs.iter().filter(|(_, s)| matches!(&s.k, K::Sig(k) if k.alive)).map(|(i, _)| *i).collect()
}

/// signals configured in a live source other than `me`
fn taken_by_others(st: &St, me: Id) -> BTreeSet<u8> {
    let mut out = BTreeSet::new();
    for (i, s) in st.srcs.iter() {
        if *i != me {
            if let K::Sig(k) = &s.k {
                if k.alive {
                    out.extend(k.configured.iter().copied());
                }
            }
        }
    }
    out
}

pub fn begin_run(sim: &Sim) {
    install_handlers();
    // process-wide state must not leak from one run into the next: release whatever a previous
    // (failing) run left blocked or pending before taking the baseline
    unsafe {
        let mut set: libc::sigset_t = std::mem::zeroed();
        libc::sigemptyset(&mut set);
        for (n, _) in UNIVERSE.iter() {
            libc::sigaddset(&mut set, *n);
        }
        libc::pthread_sigmask(libc::SIG_UNBLOCK, &set, std::ptr::null_mut());
    }
    let mut st = sim.st.borrow_mut();
    st.sig.base = hits();
    st.sig.expected = [0; N_SIG];
}

/// a Signals source whose last owner went away has been dropped: its mask is released (with two
/// sources this can happen to one of them in the middle of a dispatch while the other goes on)
fn reap(sim: &Sim) {
    let mut st = sim.st.borrow_mut();
    let gone: Vec<Id> = st.srcs.iter().filter(|(_, s)| matches!(&s.k, K::Sig(k) if k.alive) && s.sh.dropped.get() > 0).map(|(i, _)| *i).collect();
    for id in gone {
        source_dropped(&mut st, id);
    }
}

/// after every operation: thread mask and handler counters against the model
pub fn check(sim: &Sim, when: &'static str) {
    reap(sim);
    let st = sim.st.borrow();
    if !st.sig.used {
        return;
    }
    let configured: BTreeSet<u8> = taken_by_others(&st, Id::MAX);
    let indet = st.srcs.values().any(|s| s.indeterminate && matches!(s.k, K::Sig(_)));
    let blocked = blocked_in_universe();
    let h = hits();
    let base = st.sig.base;
    let exp = st.sig.expected;
    drop(st);
    if indet {
        return;
    }
    if blocked != configured {
        let names = |s: &BTreeSet<u8>| s.iter().map(|i| format!("{:?}", UNIVERSE[*i as usize].1)).collect::<Vec<_>>().join(",");
        sim.violate(
            "signal.mask_mismatch",
            vec![if blocked.is_superset(&configured) { "left_blocked".into() } else { "not_blocked".into() }, when.into()],
            format!("after {}: the thread blocks {{{}}} but the live Signals sources are configured for {{{}}}", when, names(&blocked), names(&configured)),
        );
        return;
    }
    for i in 0..N_SIG {
        let got = h[i].wrapping_sub(base[i]);
        if got != exp[i] {
            sim.violate(
                "signal.normal_disposition",
                vec![if got > exp[i] { "configured_signal_hit_the_handler".into() } else { "unconfigured_signal_swallowed".into() }, when.into()],
                format!("after {}: the process-wide handler of {:?} ran {} times, the model expects {} (a configured signal must only reach the callback, an unconfigured one only its normal disposition)", when, UNIVERSE[i].1, got, exp[i]),
            );
            return;
        }
    }
    sim.rule_ok(&["C19"], 190);
}

pub fn sig_new(sim: &Sim, id: Id, sigs: &[u8], script: &Script) {
    let Some(h) = sim.st.borrow().handle.clone() else { return };
    reap(sim);
    {
        let st = sim.st.borrow();
        if st.srcs.contains_key(&id) || live_sources(&st).len() >= 2 {
            return; // at most two Signals sources at a time
        }
    }
    sim.st.borrow_mut().sig.used = true;
    reap(sim);
    let taken = taken_by_others(&sim.st.borrow(), id);
    let sigs: Vec<u8> = sigs.iter().copied().filter(|s| !taken.contains(s)).collect();
    let sigs = &sigs[..];
    let list = to_signals(sigs);
    let Some(Ok(source)) = guarded(sim, "Signals::new", || Signals::new(&list)) else { return };
    let sh = WrapShared::new(id);
    let cbd = Rc::new(Cell::new(0));
    let guard = DropCtr(cbd.clone());
    let disp = Dispatcher::new(Wrap::new(source, sh.clone()), move |ev: calloop::signals::Event, _, tag: &mut Tag| {
        let _g = &guard;
        on_signal(id, ev, tag);
    });
    let configured: BTreeSet<u8> = sigs.iter().copied().filter(|i| (*i as usize) < N_SIG).collect();
    let mut src = new_src(id, script, K::Sig(SigK { disp: Some(disp.clone()), configured, pending: [0; N_SIG], pending_at_wait: [0; N_SIG], alive: true }), sh, cbd);
    src.kept = true;
    let r = guarded(sim, "register_dispatcher", || h.register_dispatcher(disp).map_err(|e| e.to_string()));
    if let Some(r) = r {
        let failed = r.is_err();
        finish_insert(sim, id, src, r, false);
        if failed {
            // the source came back and was dropped: mask released
            if let Some(K::Sig(k)) = sim.st.borrow_mut().srcs.get_mut(&id).map(|s| &mut s.k) {
                k.alive = false;
            }
        }
    }
    check(sim, "Signals::new");
}

/// 0 = add, 1 = remove, 2 = set
pub fn sig_change(sim: &Sim, id: Id, how: u8, sigs: &[u8]) {
    let Some((disp, in_proc)) = ({
        let st = sim.st.borrow();
        st.srcs.get(&id).and_then(|s| match &s.k {
            K::Sig(k) if k.alive => k.disp.clone().map(|d| (d, s.in_processing > 0)),
            _ => None,
        })
    }) else {
        return;
    };
    if in_proc {
        return;
    }
    reap(sim);
    let taken = taken_by_others(&sim.st.borrow(), id);
    if taken.iter().next().is_some() {
        sim.probe("signals_two_sources_change");
    }
    let sigs: Vec<u8> = sigs.iter().copied().filter(|s| !taken.contains(s)).collect();
    let sigs = &sigs[..];
    let list = to_signals(sigs);
    let r = guarded(sim, "signals change", || {
        let mut g = disp.as_source_mut();
        match how {
            0 => g.inner.add_signals(&list),
            1 => g.inner.remove_signals(&list),
            _ => g.inner.set_signals(&list),
        }
    });
    drop(disp);
    let Some(r) = r else { return };
    {
        let mut st = sim.st.borrow_mut();
        let mut deliver = Vec::new();
        if let Some(K::Sig(k)) = st.srcs.get_mut(&id).map(|s| &mut s.k) {
            let new: BTreeSet<u8> = sigs.iter().copied().filter(|i| (*i as usize) < N_SIG).collect();
            let after: BTreeSet<u8> = match how {
                0 => k.configured.union(&new).copied().collect(),
                1 => k.configured.difference(&new).copied().collect(),
                _ => new,
            };
            // a pending signal that is no longer configured is unblocked: normal disposition
            for i in 0..N_SIG as u8 {
                if k.pending[i as usize] != 0 && !after.contains(&i) {
                    for _ in 0..k.pending[i as usize].count_ones() {
                        deliver.push(i);
                    }
                    k.pending[i as usize] = 0;
                }
            }
            k.configured = after;
        }
        for i in deliver {
            if i as usize == CHLD {
                st.sig.chld_pid = None;
            }
            st.sig.expected[i as usize] += 1;
        }
    }
    if let Err(e) = r {
        sim.violate("op.unexpected_result", vec!["signals_change".into()], format!("changing the signal set failed: {}", e));
        return;
    }
    check(sim, ["add_signals", "remove_signals", "set_signals"][how.min(2) as usize]);
}

/// A child process of ours exits: the kernel sends SIGCHLD with the child as sender.
pub fn spawn_child(sim: &Sim) {
    if !sim.st.borrow().sig.used {
        return;
    }
    reap(sim);
    {
        let st = sim.st.borrow();
        // one kernel-sent instance at a time, and not on top of a process-directed one that
        // is still pending (they would coalesce into the older one)
        if st.sig.chld_pid.is_some() {
            return;
        }
        for id in live_sources(&st) {
            if let Some(K::Sig(k)) = st.srcs.get(&id).map(|s| &s.k) {
                if k.pending[CHLD] & 2 != 0 {
                    return;
                }
            }
        }
    }
    let pid = unsafe { libc::fork() };
    if pid < 0 {
        return;
    }
    if pid == 0 {
        unsafe { libc::_exit(7) };
    }
    {
        let mut st = sim.st.borrow_mut();
        let mut blocked = false;
        for id in live_sources(&st) {
            if let Some(K::Sig(k)) = st.srcs.get_mut(&id).map(|s| &mut s.k) {
                if k.configured.contains(&(CHLD as u8)) {
                    k.pending[CHLD] |= 2;
                    blocked = true;
                }
            }
        }
        if blocked {
            st.sig.chld_pid = Some(pid as u32);
        } else {
            st.sig.expected[CHLD] += 1;
        }
    }
    // wait until it is gone (the signal has been sent by then), then reap it
    unsafe {
        let mut info: libc::siginfo_t = std::mem::zeroed();
        while libc::waitid(libc::P_PID, pid as libc::id_t, &mut info, libc::WEXITED | libc::WNOWAIT) != 0 {
            if *libc::__errno_location() != libc::EINTR {
                break;
            }
        }
        let mut st = 0;
        while libc::waitpid(pid, &mut st, 0) < 0 && *libc::__errno_location() == libc::EINTR {}
    }
    sim.probe("signal_from_exited_child");
    check(sim, "child exit");
}

pub fn raise(sim: &Sim, sig: u8, process_directed: bool) {
    if sig as usize >= N_SIG || !sim.st.borrow().sig.used {
        return;
    }
    reap(sim);
    {
        let mut st = sim.st.borrow_mut();
        let mut blocked = false;
        for id in live_sources(&st) {
            if let Some(K::Sig(k)) = st.srcs.get_mut(&id).map(|s| &mut s.k) {
                if k.configured.contains(&sig) {
                    k.pending[sig as usize] |= if process_directed { 2 } else { 1 };
                    blocked = true;
                }
            }
        }
        if !blocked {
            st.sig.expected[sig as usize] += 1;
        }
    }
    unsafe {
        if process_directed {
            libc::kill(libc::getpid(), UNIVERSE[sig as usize].0);
        } else {
            libc::raise(UNIVERSE[sig as usize].0);
        }
    }
    check(sim, "raise");
}

fn on_signal(id: Id, ev: calloop::signals::Event, tag: &mut Tag) {
    let sim = cur();
    sim.trace(|| format!("   cb signals {} {:?}", id, ev.signal()));
    if !crate::cb::common(&sim, id, tag) {
        return;
    }
    {
        let mut st = sim.st.borrow_mut();
        let s = st.srcs.get_mut(&id).unwrap();
        if !s.indeterminate {
            if let K::Sig(k) = &mut s.k {
                let idx = UNIVERSE.iter().position(|(_, x)| *x == ev.signal());
                let mut viol = None;
                match idx {
                    Some(i) if k.pending[i] != 0 && k.configured.contains(&(i as u8)) => {
                        // one instance consumed (which of the two the kernel hands out first is
                        // its business)
                        k.pending[i] &= k.pending[i] - 1;
                        // an instance raised after this one was handed out (by the callback of
                        // another source of the batch) was not pending at the wait
                        k.pending_at_wait[i] &= k.pending[i];
                        let (pid, uid) = unsafe { (libc::getpid() as u32, libc::getuid()) };
                        // SIGCHLD for an exited child is sent by the kernel on the child's behalf:
                        // the sender is the child (instances coalesce: either one may be reported)
                        let child = if i == CHLD { st.sig.chld_pid } else { None };
                        if (ev.pid() != pid && Some(ev.pid()) != child) || ev.uid() != uid {
                            viol = Some(("signal.wrong_info", format!("signal {:?} reported sender pid {} uid {}, expected {} {} (exited child: {:?})", ev.signal(), ev.pid(), ev.uid(), pid, uid, child)));
                        }
                        if child.is_some() && Some(ev.pid()) == child {
                            st.sig.chld_pid = None;
                        }
                    }
                    Some(i) => viol = Some(("signal.unexpected_event", format!("the callback received {:?} but no instance of it is pending for this source (configured: {})", ev.signal(), k.configured.contains(&(i as u8))))),
                    None => viol = Some(("signal.unexpected_event", format!("the callback received {:?}, which is outside the signal universe", ev.signal()))),
                }
                drop(st);
                if let Some((r, d)) = viol {
                    sim.violate(r, vec![], d);
                    return;
                }
                sim.rule_ok(&["C19"], 191);
            }
        }
    }
    crate::cb::run_script(&sim, id);
}

/// after an Ok dispatch: every instance that was pending when the batch was collected has
/// been handed to the callback
pub fn after_dispatch(sim: &Sim, ok: bool) {
    if !ok {
        return;
    }
    let st = sim.st.borrow();
    for (id, s) in st.srcs.iter() {
        let K::Sig(k) = &s.k else { continue };
        if !(s.inserted && s.enabled) || s.indeterminate || s.excused || !st.must.contains_key(id) {
            continue;
        }
        for i in 0..N_SIG {
            if k.pending_at_wait[i] & k.pending[i] != 0 && k.configured.contains(&(i as u8)) {
                let d = format!("{:?} was pending for signals source {} when the dispatch polled, the source was processed, but the signal was not handed to the callback", UNIVERSE[i].1, id);
                drop(st);
                sim.violate("signal.left_pending", vec![], d);
                return;
            }
        }
    }
}

/// the Signals object was dropped: its mask is unblocked, pending signals hit the handlers
pub fn source_dropped(st: &mut St, id: Id) {
    let mut deliver = Vec::new();
    if let Some(K::Sig(k)) = st.srcs.get_mut(&id).map(|s| &mut s.k) {
        if k.alive {
            k.alive = false;
            for i in 0..N_SIG {
                for _ in 0..k.pending[i].count_ones() {
                    deliver.push(i);
                }
                k.pending[i] = 0;
            }
            k.configured.clear();
        }
    }
    for i in deliver {
        if i == CHLD {
            st.sig.chld_pid = None;
        }
        st.sig.expected[i] += 1;
    }
}
