//! Delta debugging of a failing program. Works on the JSON form of the program so that every
//! list (steps, scripts, per-callback operation lists, environment events, faults) shrinks
//! with the same code. A candidate is kept only if it still produces a violation of the same
//! class.

use serde_json::Value;

use crate::program::Program;

#[derive(Clone, Debug)]
enum Seg {
    Key(String),
    Idx(usize),
}

fn get_mut<'a>(v: &'a mut Value, path: &[Seg]) -> Option<&'a mut Value> {
    let mut cur = v;
    for s in path {
        cur = match s {
            Seg::Key(k) => cur.get_mut(k.as_str())?,
            Seg::Idx(i) => cur.get_mut(*i)?,
        };
    }
    Some(cur)
}

fn collect_arrays(v: &Value, path: &mut Vec<Seg>, out: &mut Vec<Vec<Seg>>) {
    match v {
        Value::Array(a) => {
            out.push(path.clone());
            for (i, x) in a.iter().enumerate() {
                path.push(Seg::Idx(i));
                collect_arrays(x, path, out);
                path.pop();
            }
        }
        Value::Object(o) => {
            for (k, x) in o.iter() {
                path.push(Seg::Key(k.clone()));
                collect_arrays(x, path, out);
                path.pop();
            }
        }
        _ => {}
    }
}

fn collect_numbers(v: &Value, path: &mut Vec<Seg>, out: &mut Vec<(Vec<Seg>, u64)>) {
    match v {
        Value::Number(n) => {
            if let Some(x) = n.as_u64() {
                if x > 1 {
                    out.push((path.clone(), x));
                }
            }
        }
        Value::Array(a) => {
            for (i, x) in a.iter().enumerate() {
                path.push(Seg::Idx(i));
                collect_numbers(x, path, out);
                path.pop();
            }
        }
        Value::Object(o) => {
            for (k, x) in o.iter() {
                if k == "id" || k == "seed" || k == "exec" || k == "task" {
                    continue;
                }
                path.push(Seg::Key(k.clone()));
                collect_numbers(x, path, out);
                path.pop();
            }
        }
        _ => {}
    }
}

pub struct MinStats {
    pub candidates: u64,
    pub accepted: u64,
}

/// `same(p)` must return true iff `p` still fails with the original class.
pub fn minimise(p: &Program, budget: u64, same: &mut dyn FnMut(&Program) -> bool) -> (Program, MinStats) {
    let mut best = serde_json::to_value(p).unwrap();
    let mut stats = MinStats { candidates: 0, accepted: 0 };
    let mut try_cand = |cand: &Value, stats: &mut MinStats| -> bool {
        if stats.candidates >= budget {
            return false;
        }
        let Ok(prog) = serde_json::from_value::<Program>(cand.clone()) else { return false };
        stats.candidates += 1;
        if same(&prog) {
            stats.accepted += 1;
            true
        } else {
            false
        }
    };
    // cheap global simplifications first
    for (key, val) in [("perm_seed", Value::from(0u64)), ("table_every", Value::from(0u64)), ("env", Value::Array(vec![])), ("faults", Value::Array(vec![]))] {
        let mut c = best.clone();
        c[key] = val;
        if c != best && try_cand(&c, &mut stats) {
            best = c;
        }
    }
    let mut progress = true;
    while progress && stats.candidates < budget {
        progress = false;
        // delete list elements, chunks first then single elements, last to first
        let mut arrays = Vec::new();
        collect_arrays(&best, &mut Vec::new(), &mut arrays);
        // longest paths last: shrinking outer lists first removes whole subtrees
        arrays.sort_by_key(|p| p.len());
        for path in arrays {
            let Some(len) = get_mut(&mut best, &path).and_then(|v| v.as_array().map(|a| a.len())) else { continue };
            if len == 0 {
                continue;
            }
            let mut chunk = (len / 2).max(1);
            loop {
                let mut i = get_mut(&mut best, &path).and_then(|v| v.as_array().map(|a| a.len())).unwrap_or(0);
                while i > 0 {
                    let lo = i.saturating_sub(chunk);
                    let mut c = best.clone();
                    if let Some(Value::Array(a)) = get_mut(&mut c, &path) {
                        if lo < a.len() && i <= a.len() {
                            a.drain(lo..i);
                        } else {
                            break;
                        }
                    } else {
                        break;
                    }
                    if try_cand(&c, &mut stats) {
                        best = c;
                        progress = true;
                    }
                    i = lo;
                }
                if chunk == 1 {
                    break;
                }
                chunk /= 2;
            }
            if stats.candidates >= budget {
                break;
            }
        }
        // shrink numbers
        let mut nums = Vec::new();
        collect_numbers(&best, &mut Vec::new(), &mut nums);
        for (path, x) in nums {
            for cand in [0u64, 1, x / 2] {
                if cand >= x {
                    continue;
                }
                let mut c = best.clone();
                if let Some(v) = get_mut(&mut c, &path) {
                    *v = Value::from(cand);
                }
                if try_cand(&c, &mut stats) {
                    best = c;
                    progress = true;
                    break;
                }
            }
            if stats.candidates >= budget {
                break;
            }
        }
    }
    (serde_json::from_value(best).unwrap(), stats)
}
