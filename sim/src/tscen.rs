//! The shuttle scenarios of C03, C04, C10 and C11 and their history oracles.

use std::sync::atomic::{AtomicU32, AtomicU64, Ordering as O};
use std::sync::{Arc, Mutex};
use std::task::Waker;
use std::time::Duration;

use calloop::channel::{channel, sync_channel, Event as ChanEvent};
use calloop::futures::executor;
use calloop::ping::make_ping;
use calloop::verif::Site;
use calloop::EventLoop;

use crate::rng::Rng;
use crate::tsim::*;

pub struct Ctx;

fn new_loop() -> EventLoop<'static, Ctx> {
    let lp = EventLoop::<Ctx>::try_new().expect("EventLoop::try_new");
    set_notifier(std::os::fd::AsRawFd::as_raw_fd(&lp));
    lp
}

fn batch_events() -> usize {
    T.with(|t| t.borrow().batch_events)
}

/// The loop thread: zero-timeout dispatches interleaved with yields until every scripted
/// thread is done and two consecutive dispatches found nothing. Returns false if the other
/// threads never finished although the loop kept dispatching (somebody is blocked for good).
fn pump(lp: &mut EventLoop<'static, Ctx>, done: &AtomicU32, n: u32, stop_early: &dyn Fn() -> bool) -> bool {
    let mut quiet = 0;
    let mut idle = 0;
    loop {
        let before = batch_events();
        if let Err(e) = lp.dispatch(Duration::ZERO, &mut Ctx) {
            violate("tsim.dispatch_error", &["C03", "C04", "C10"], vec![], format!("dispatch returned {}", e));
            return true;
        }
        let got = batch_events() - before;
        if stop_early() {
            return true;
        }
        if done.load(O::SeqCst) >= n {
            if got == 0 {
                quiet += 1;
                if quiet >= 2 {
                    return true;
                }
            } else {
                quiet = 0;
            }
        } else if got == 0 {
            idle += 1;
            if idle > 600 {
                T.with(|t| t.borrow_mut().stuck = true);
                log(Ev::Stuck);
                return false;
            }
        } else {
            idle = 0;
        }
        shuttle::thread::yield_now();
    }
}

// ------------------------------------------------------------------------------------------
// C03: pings
// ------------------------------------------------------------------------------------------

pub fn c03(p: &Params) {
    begin_execution();
    set_stall(p.extra);
    let mut lp = new_loop();
    let (ping, source) = make_ping().unwrap();
    let ping_tok = lp
        .handle()
        .insert_source(source, |(), _, _| {
            log(Ev::Callback { src: "ping", payload: 0 });
        })
        .unwrap();
    let done = Arc::new(AtomicU32::new(0));
    let mut rng = Rng::new(p.extra as u64 ^ 0xC03);
    let mut joins = Vec::new();
    // variant bit 0: the original handle is dropped before the threads start; else after
    let early_drop = p.variant & 1 == 1;
    let mut clones = Vec::new();
    for _ in 0..p.threads {
        clones.push(ping.clone());
    }
    if early_drop {
        log(Ev::OpBegin { th: 0, op: "drop_handle", arg: 0 });
        drop(ping);
        sp();
        for (i, h) in clones.into_iter().enumerate() {
            joins.push(spawn_pinger(i as u32 + 1, h, 1 + rng.below(p.ops as u64) as u32, done.clone()));
            sp();
        }
    } else {
        for (i, h) in clones.into_iter().enumerate() {
            joins.push(spawn_pinger(i as u32 + 1, h, 1 + rng.below(p.ops as u64) as u32, done.clone()));
            sp();
        }
        if p.variant & 2 == 2 {
            // the loop thread pings too, then lets go
            log(Ev::OpBegin { th: 0, op: "ping", arg: 0 });
            ping.ping();
            log(Ev::OpEnd { th: 0, op: "ping", arg: 0, ok: true });
        }
        log(Ev::OpBegin { th: 0, op: "drop_handle", arg: 0 });
        drop(ping);
    }
    let h = lp.handle();
    if p.variant & 4 == 4 {
        // the loop thread disables the source for a while: pings accumulate and must be
        // delivered after enable()
        let _ = lp.dispatch(Duration::ZERO, &mut Ctx);
        log(Ev::OpBegin { th: 0, op: "disable", arg: 0 });
        let _ = h.disable(&ping_tok);
        sp();
        shuttle::thread::yield_now();
        let _ = lp.dispatch(Duration::ZERO, &mut Ctx);
        shuttle::thread::yield_now();
        log(Ev::OpBegin { th: 0, op: "enable", arg: 0 });
        let _ = h.enable(&ping_tok);
        sp();
    }
    let finished = pump(&mut lp, &done, p.threads, &|| false);
    for j in joins {
        let _ = j.join();
    }
    let slots = h.verif_stats().occupied_slots;
    // ---- oracle over the history
    let evs = T.with(|t| t.borrow().events.clone());
    // no callback while disabled
    {
        let dis = evs.iter().find(|(_, e)| matches!(e, Ev::OpBegin { op: "disable", .. })).map(|(s, _)| *s);
        let en = evs.iter().find(|(_, e)| matches!(e, Ev::OpBegin { op: "enable", .. })).map(|(s, _)| *s);
        if let (Some(d), Some(e)) = (dis, en) {
            // the disable call itself is logged before it takes effect: skip the step after it
            if evs.iter().any(|(s, ev)| *s > d + 1 && *s < e && matches!(ev, Ev::Callback { src: "ping", .. })) {
                violate("ping.callback_while_disabled", &["C03", "C07"], vec![], "the ping callback ran between disable() and enable()".into());
            }
        }
    }
    let mut cbs: Vec<u64> = Vec::new();
    let mut ping_writes: Vec<u64> = Vec::new();
    let mut pings: Vec<(u64, Option<u64>)> = Vec::new();
    let mut close_th: std::collections::BTreeSet<u32> = Default::default();
    for (s, e) in &evs {
        match e {
            Ev::Callback { src: "ping", .. } => cbs.push(*s),
            Ev::Point { th, site: Site::PingFlagDrop } => {
                close_th.insert(*th);
            }
            Ev::Point { th, site: Site::PingWriteAfter } => {
                if !close_th.remove(th) {
                    ping_writes.push(*s);
                }
            }
            Ev::OpBegin { op: "ping", .. } => pings.push((*s, None)),
            Ev::OpEnd { op: "ping", .. } => {
                if let Some(p) = pings.iter_mut().rev().find(|p| p.1.is_none()) {
                    p.1 = Some(*s);
                }
            }
            _ => {}
        }
    }
    if !finished || slots != 0 {
        violate(
            "ping.lost_close_or_wakeup",
            &["C03"],
            vec![if finished { "source_not_removed".into() } else { "stuck".into() }],
            format!("after every Ping handle was dropped the source is still in the loop (occupied slots {}) - the close marker or a ping never woke the loop", slots),
        );
    } else {
        // (a) every returned ping is followed by a callback that starts after the ping began
        for (b, e) in &pings {
            if e.is_some() && !cbs.iter().any(|c| c > b) {
                violate("ping.lost", &["C03", "C02"], vec![], format!("ping() begun at history position {} returned, but no callback started after it", b));
            }
        }
        // (b) every callback is justified by a ping written since the previous callback
        let mut prev = 0u64;
        for c in &cbs {
            if !ping_writes.iter().any(|w| *w > prev && w < c) {
                violate("ping.callback_without_ping", &["C03", "C01"], vec![], format!("callback at history position {} has no ping written since the previous callback", c));
            }
            prev = *c;
        }
        if cbs.len() > pings.len() {
            violate("ping.callback_without_ping", &["C03", "C01"], vec!["more_callbacks_than_pings".into()], format!("{} callbacks for {} pings", cbs.len(), pings.len()));
        }
        // (d) no spinning afterwards
        let before = batch_events();
        let _ = lp.dispatch(Duration::ZERO, &mut Ctx);
        let _ = lp.dispatch(Duration::ZERO, &mut Ctx);
        if batch_events() != before {
            violate("ping.spins_after_close", &["C03", "C12"], vec![], "the loop still gets events after the ping source closed and was removed".into());
        }
    }
    drop(h);
    drop(lp);
    end_execution();
}

fn spawn_pinger(i: u32, h: calloop::ping::Ping, n: u32, done: Arc<AtomicU32>) -> shuttle::thread::JoinHandle<()> {
    shuttle::thread::spawn(move || {
        register_thread(i);
        sp();
        for k in 0..n {
            log(Ev::OpBegin { th: i, op: "ping", arg: k as u64 });
            h.ping();
            log(Ev::OpEnd { th: i, op: "ping", arg: k as u64, ok: true });
            sp();
        }
        log(Ev::OpBegin { th: i, op: "drop_handle", arg: 0 });
        drop(h);
        done.fetch_add(1, O::SeqCst);
    })
}

// ------------------------------------------------------------------------------------------
// C04: channels
// ------------------------------------------------------------------------------------------

enum Tx {
    A(calloop::channel::Sender<u64>),
    S(calloop::channel::SyncSender<u64>),
}

impl Tx {
    fn dup(&self) -> Tx {
        match self {
            Tx::A(s) => Tx::A(s.clone()),
            Tx::S(s) => Tx::S(s.clone()),
        }
    }
}

pub fn c04(p: &Params) {
    begin_execution();
    set_stall(p.extra);
    let mut lp = new_loop();
    let (tx, chan) = match p.bound {
        None => {
            let (s, c) = channel::<u64>();
            (Tx::A(s), c)
        }
        Some(b) => {
            let (s, c) = sync_channel::<u64>(b as usize);
            (Tx::S(s), c)
        }
    };
    let closed = Arc::new(AtomicU32::new(0));
    let closed2 = closed.clone();
    lp.handle()
        .insert_source(chan, move |ev, _, _| match ev {
            ChanEvent::Msg(v) => {
                log(Ev::Callback { src: "msg", payload: v });
            }
            ChanEvent::Closed => {
                closed2.fetch_add(1, O::SeqCst);
                log(Ev::Callback { src: "closed", payload: 0 });
            }
        })
        .unwrap();
    let done = Arc::new(AtomicU32::new(0));
    let mut rng = Rng::new(p.extra as u64 ^ 0xC04);
    let mut joins = Vec::new();
    let handoff = p.variant & 1 == 1;
    let total_threads = p.threads + if handoff { 1 } else { 0 };
    for i in 1..=p.threads {
        let t = tx.dup();
        let n = 1 + rng.below(p.ops as u64) as u32;
        let use_try = rng.chance(1, 3);
        let done = done.clone();
        let spawn_child = handoff && i == 1;
        let child_id = p.threads + 1;
        joins.push(shuttle::thread::spawn(move || {
            register_thread(i);
            sp();
            if spawn_child {
                // clone the sender and hand the clone to a new thread
                let t2 = t.dup();
                let done2 = done.clone();
                shuttle::thread::spawn(move || {
                    register_thread(child_id);
                    sp();
                    let v = ((child_id as u64) << 32) | 0;
                    log(Ev::OpBegin { th: child_id, op: "send", arg: v });
                    let ok = match &t2 {
                        Tx::A(s) => s.send(v).is_ok(),
                        Tx::S(s) => s.send(v).is_ok(),
                    };
                    log(Ev::OpEnd { th: child_id, op: "send", arg: v, ok });
                    sp();
                    log(Ev::OpBegin { th: child_id, op: "drop_sender", arg: 0 });
                    drop(t2);
                    log(Ev::OpEnd { th: child_id, op: "drop_sender", arg: 0, ok: true });
                    done2.fetch_add(1, O::SeqCst);
                });
                sp();
            }
            for k in 0..n {
                let v = ((i as u64) << 32) | k as u64;
                log(Ev::OpBegin { th: i, op: "send", arg: v });
                let ok = match &t {
                    Tx::A(s) => s.send(v).is_ok(),
                    Tx::S(s) => {
                        if use_try && k % 2 == 0 {
                            s.try_send(v).is_ok()
                        } else {
                            s.send(v).is_ok()
                        }
                    }
                };
                log(Ev::OpEnd { th: i, op: "send", arg: v, ok });
                sp();
            }
            // no message may be left queued without a pending wake-up: everything this thread
            // sent successfully must be delivered while it still holds its sender (dropping the
            // sender wakes the loop once more and would mask a lost wake-up)
            let mine: Vec<u64> = T.with(|t| t.borrow().events.iter().filter_map(|(_, e)| if let Ev::OpEnd { th, op: "send", arg, ok: true } = e { if *th == i { Some(*arg) } else { None } } else { None }).collect());
            let mut all = false;
            for _ in 0..1500 {
                all = T.with(|t| {
                    let t = t.borrow();
                    mine.iter().all(|v| t.events.iter().any(|(_, e)| matches!(e, Ev::Callback { src: "msg", payload } if payload == v)))
                });
                if all || is_stuck() {
                    break;
                }
                shuttle::thread::yield_now();
            }
            if !all && !is_stuck() {
                violate("channel.message_without_wakeup", &["C04", "C02"], vec![], format!("sender thread {} sent {} message(s) successfully but the loop never delivered them while the sender was alive: a message sits in the queue without a pending wake-up", i, mine.len()));
            }
            log(Ev::OpBegin { th: i, op: "drop_sender", arg: 0 });
            drop(t);
            log(Ev::OpEnd { th: i, op: "drop_sender", arg: 0, ok: true });
            done.fetch_add(1, O::SeqCst);
        }));
        sp();
    }
    log(Ev::OpBegin { th: 0, op: "drop_sender", arg: 0 });
    drop(tx);
    log(Ev::OpEnd { th: 0, op: "drop_sender", arg: 0, ok: true });
    let h = lp.handle();
    let c3 = closed.clone();
    let finished = pump(&mut lp, &done, total_threads, &move || c3.load(O::SeqCst) > 0 && false);
    // a blocked sender can only be released by dropping the loop (and with it the receiver)
    let slots = h.verif_stats().occupied_slots;
    let evs = T.with(|t| t.borrow().events.clone());
    let blocked = total_threads - done.load(O::SeqCst).min(total_threads);
    drop(h);
    drop(lp);
    for j in joins {
        let _ = j.join();
    }
    // ---- oracle
    let mut sent: Vec<u64> = Vec::new();
    let mut delivered: Vec<(u64, u64)> = Vec::new();
    let mut closed_at: Vec<u64> = Vec::new();
    let mut last_drop_begin = 0u64;
    let mut drops = 0;
    for (s, e) in &evs {
        match e {
            Ev::OpEnd { op: "send", arg, ok: true, .. } => sent.push(*arg),
            Ev::Callback { src: "msg", payload } => delivered.push((*s, *payload)),
            Ev::Callback { src: "closed", .. } => closed_at.push(*s),
            Ev::OpBegin { op: "drop_sender", .. } => {
                drops += 1;
                if drops == total_threads + 1 {
                    last_drop_begin = *s;
                }
            }
            _ => {}
        }
    }
    let flags = vec![format!("bound={:?}", p.bound)];
    if !finished {
        let queued = sent.len().saturating_sub(delivered.len());
        let mut f = flags.clone();
        f.push(if blocked > 0 { "blocked_sender".into() } else { "no_blocked_sender".into() });
        violate(
            "channel.stuck",
            &["C04"],
            f,
            format!("the loop keeps dispatching but nothing happens: {} sender thread(s) never finished (blocked in send), {} message(s) sent but undelivered, Closed delivered {} times", blocked, queued, closed_at.len()),
        );
    } else {
        // exactly once, per-sender order
        let mut seen = std::collections::BTreeMap::new();
        for (_, v) in &delivered {
            *seen.entry(*v).or_insert(0u32) += 1;
        }
        for v in &sent {
            match seen.get(v) {
                Some(1) => {}
                Some(n) => violate("channel.duplicate", &["C04"], flags.clone(), format!("message {:#x} was delivered {} times", v, n)),
                None => violate("channel.lost_message", &["C04", "C02"], flags.clone(), format!("message {:#x} was sent successfully but never delivered", v)),
            }
        }
        for (_, v) in &delivered {
            if !sent.contains(v) {
                // a try_send that reported Full must not deliver
                violate("channel.phantom_message", &["C04", "C01"], flags.clone(), format!("message {:#x} was delivered but its send did not succeed", v));
            }
        }
        let mut last: std::collections::BTreeMap<u64, u64> = Default::default();
        for (_, v) in &delivered {
            let th = v >> 32;
            let k = v & 0xffff_ffff;
            if let Some(prev) = last.get(&th) {
                if *prev >= k {
                    violate("channel.reordered", &["C04"], flags.clone(), format!("messages of sender {} were delivered out of order ({} after {})", th, k, prev));
                }
            }
            last.insert(th, k);
        }
        match closed_at.len() {
            1 => {
                let c = closed_at[0];
                if delivered.iter().any(|(s, _)| *s > c) {
                    violate("channel.after_closed", &["C04"], flags.clone(), "a message was delivered after Closed".into());
                }
                if c < last_drop_begin {
                    violate("channel.closed_early", &["C04"], flags.clone(), "Closed was delivered before the last sender began to drop".into());
                }
                if slots != 0 {
                    violate("channel.not_removed_after_closed", &["C04", "C06"], flags.clone(), "the channel stayed in the loop after Closed".into());
                }
            }
            0 => violate("channel.closed_missing", &["C04", "C02"], flags.clone(), "every sender is gone and the loop is quiescent, but Closed was never delivered (the final wake-up was lost)".into()),
            n => violate("channel.closed_twice", &["C04"], flags.clone(), format!("Closed was delivered {} times", n)),
        }
    }
    end_execution();
}

// ------------------------------------------------------------------------------------------
// C10: executor, wakers on other threads
// ------------------------------------------------------------------------------------------

struct WFut {
    id: u64,
    pendings: u32,
    polls: u32,
    slot: Arc<Mutex<Option<Waker>>>,
    drops: Arc<AtomicU64>,
    done: Arc<AtomicU32>,
}

impl std::future::Future for WFut {
    type Output = u64;
    fn poll(mut self: std::pin::Pin<&mut Self>, cx: &mut std::task::Context<'_>) -> std::task::Poll<u64> {
        let th = me();
        log(Ev::Poll { task: self.id, th });
        self.polls += 1;
        if self.polls <= self.pendings {
            *self.slot.lock().unwrap() = Some(cx.waker().clone());
            std::task::Poll::Pending
        } else {
            self.done.fetch_add(1, O::SeqCst);
            std::task::Poll::Ready(self.id)
        }
    }
}

impl Drop for WFut {
    fn drop(&mut self) {
        self.drops.fetch_add(1 << (self.id * 8), O::SeqCst);
        log(Ev::Drop { what: "future", id: self.id, th: me() });
    }
}

pub fn c10(p: &Params) {
    begin_execution();
    set_stall(p.extra);
    let mut lp = new_loop();
    let (exec, sched) = executor::<u64>().unwrap();
    let tok = lp
        .handle()
        .insert_source(exec, |v, _, _| {
            log(Ev::Callback { src: "result", payload: v });
        })
        .unwrap();
    let mut rng = Rng::new(p.extra as u64 ^ 0xC10);
    let ntasks = 1 + (p.variant % 3) as u64;
    let drops = Arc::new(AtomicU64::new(0));
    let completed = Arc::new(AtomicU32::new(0));
    let mut slots = Vec::new();
    let mut pend = Vec::new();
    for id in 0..ntasks {
        let slot = Arc::new(Mutex::new(None));
        let pendings = 1 + rng.below(p.ops as u64) as u32;
        pend.push(pendings);
        log(Ev::OpBegin { th: 0, op: "schedule", arg: id });
        sched.schedule(WFut { id, pendings, polls: 0, slot: slot.clone(), drops: drops.clone(), done: completed.clone() }).unwrap();
        log(Ev::OpEnd { th: 0, op: "schedule", arg: id, ok: true });
        slots.push(slot);
    }
    let done = Arc::new(AtomicU32::new(0));
    let mut joins = Vec::new();
    // variant >= 3: the executor is removed and dropped while the wakers are active
    let drop_exec = p.variant >= 3;
    for i in 1..=p.threads {
        let slots = slots.clone();
        let done = done.clone();
        let wakes = 1 + rng.below(p.ops as u64) as u32;
        let target = rng.below(ntasks) as usize;
        joins.push(shuttle::thread::spawn(move || {
            register_thread(i);
            sp();
            let mut made = 0;
            let mut tries = 0;
            while made < wakes && tries < 40 {
                tries += 1;
                let w = slots[target].lock().unwrap().take();
                match w {
                    Some(w) => {
                        log(Ev::OpBegin { th: i, op: "wake", arg: target as u64 });
                        if (made + i) % 2 == 1 {
                            w.wake_by_ref();
                        } else {
                            w.wake();
                        }
                        log(Ev::OpEnd { th: i, op: "wake", arg: target as u64, ok: true });
                        made += 1;
                        sp();
                    }
                    None => shuttle::thread::yield_now(),
                }
            }
            done.fetch_add(1, O::SeqCst);
        }));
        sp();
    }
    let h = lp.handle();
    let drop_after = rng.below(4) as u32;
    let mut iter = 0u32;
    let mut removed = false;
    let finished = {
        let mut quiet = 0;
        let mut idle = 0;
        loop {
            let before = batch_events();
            let _ = lp.dispatch(Duration::ZERO, &mut Ctx);
            let got = batch_events() - before;
            iter += 1;
            if drop_exec && !removed && iter > drop_after {
                log(Ev::OpBegin { th: 0, op: "remove_executor", arg: 0 });
                h.remove(tok);
                log(Ev::OpEnd { th: 0, op: "remove_executor", arg: 0, ok: true });
                removed = true;
            }
            if done.load(O::SeqCst) >= p.threads {
                if got == 0 {
                    quiet += 1;
                    if quiet >= 2 {
                        break true;
                    }
                } else {
                    quiet = 0;
                }
            } else if got == 0 {
                idle += 1;
                if idle > 2000 {
                    break false;
                }
            } else {
                idle = 0;
            }
            shuttle::thread::yield_now();
        }
    };
    for j in joins {
        let _ = j.join();
    }
    let evs = T.with(|t| t.borrow().events.clone());
    // ---- oracle
    if !finished {
        violate("exec.stuck", &["C10"], vec![], "waker threads never finished".into());
    }
    let mut polls: Vec<(u64, u64, u32)> = Vec::new();
    let mut wakes: Vec<(u64, u64, Option<u64>)> = Vec::new();
    let mut results: Vec<u64> = Vec::new();
    let mut remove_at = u64::MAX;
    for (s, e) in &evs {
        match e {
            Ev::Poll { task, th } => polls.push((*s, *task, *th)),
            Ev::OpBegin { op: "wake", arg, .. } => wakes.push((*s, *arg, None)),
            Ev::OpEnd { op: "wake", arg, .. } => {
                if let Some(w) = wakes.iter_mut().rev().find(|w| w.1 == *arg && w.2.is_none()) {
                    w.2 = Some(*s);
                }
            }
            Ev::Callback { src: "result", payload } => results.push(*payload),
            Ev::OpBegin { op: "remove_executor", .. } => remove_at = *s,
            Ev::Drop { what: "future", id, th } => {
                if *th != 0 {
                    violate("exec.dropped_off_thread", &["C10"], vec![], format!("the future of task {} was dropped on thread {}", id, th));
                }
            }
            _ => {}
        }
    }
    for (s, task, th) in &polls {
        if *th != 0 {
            violate("exec.polled_off_thread", &["C10"], vec![], format!("task {} was polled on thread {} (history position {})", task, th, s));
        }
    }
    if !removed {
        // every completed wake of a live task is followed by a poll of that task
        for (b, task, e) in &wakes {
            if e.is_none() {
                continue;
            }
            let completed_before = polls.iter().filter(|p| p.1 == *task).count() as u32 > pend[*task as usize] && polls.iter().filter(|p| p.1 == *task && p.0 < *b).count() as u32 > pend[*task as usize];
            if !completed_before && !polls.iter().any(|p| p.1 == *task && p.0 > *b) {
                violate("exec.lost_wake", &["C10", "C02"], vec![], format!("wake of task {} begun at history position {} returned, but the task was never polled afterwards", task, b));
            }
        }
        // each output exactly once
        for id in 0..ntasks {
            let n_polls = polls.iter().filter(|p| p.1 == id).count() as u32;
            let n_res = results.iter().filter(|r| **r == id).count();
            if n_polls > pend[id as usize] && n_res != 1 {
                violate("exec.result_count", &["C10"], vec![], format!("task {} completed but its output was delivered {} times", id, n_res));
            }
            if n_polls <= pend[id as usize] && n_res != 0 {
                violate("exec.result_count", &["C10", "C01"], vec!["phantom".into()], format!("task {} did not complete but an output was delivered", id));
            }
        }
    } else {
        // after the executor is gone: schedule() is refused, every future has been dropped
        let r = sched.schedule(WFut { id: 7, pendings: 0, polls: 0, slot: Arc::new(Mutex::new(None)), drops: drops.clone(), done: completed.clone() });
        if r.is_ok() {
            violate("exec.schedule_after_destroy", &["C10"], vec![], "schedule() succeeded after the executor was dropped".into());
        }
        if polls.iter().any(|p| p.0 > remove_at && false) {
            // polls after removal are impossible to attribute without the drop time; skipped
        }
        drop(sched);
        drop(slots);
        let d = drops.load(O::SeqCst);
        // was a wake from another thread in flight (past async-task's scheduled mark, not yet
        // enqueued) while Executor::drop woke its tasks and drained the queue?
        let drop_begin = evs.iter().find(|(_, e)| matches!(e, Ev::Point { site: Site::ExecDrop, .. })).map(|(s, _)| *s).unwrap_or(u64::MAX);
        let drop_end = evs.iter().find(|(_, e)| matches!(e, Ev::Point { site: Site::ExecDropDrained, .. })).map(|(s, _)| *s).unwrap_or(0);
        let mut overlap = false;
        let mut open: std::collections::BTreeMap<u32, u64> = Default::default();
        for (s, e) in &evs {
            match e {
                Ev::Point { th, site: Site::ExecEnqueue } if *th != 0 => {
                    open.insert(*th, *s);
                }
                Ev::Point { th, site: Site::ExecEnqueued } if *th != 0 => {
                    if let Some(b) = open.remove(th) {
                        if b < drop_end && *s > drop_begin {
                            overlap = true;
                        }
                    }
                }
                _ => {}
            }
        }
        // a wake that began before the drop and whose enqueue happened after it
        for (b, _, e) in &wakes {
            if *b < drop_end && e.map(|x| x > drop_begin).unwrap_or(true) {
                overlap = true;
            }
        }
        for id in 0..ntasks {
            let n = (d >> (id * 8)) & 0xff;
            if n != 1 {
                violate(
                    "exec.future_not_dropped",
                    &["C10", "C06"],
                    vec![if overlap { "wake_overlaps_executor_drop".into() } else { "no_concurrent_wake".into() }],
                    format!("the executor was removed and dropped, the scheduler and every waker are gone, but the future of task {} was dropped {} times", id, n),
                );
            }
        }
    }
    drop(h);
    drop(lp);
    end_execution();
}

// ------------------------------------------------------------------------------------------
// C11: LoopSignal / run / block_on
// ------------------------------------------------------------------------------------------

pub fn c11(p: &Params) {
    begin_execution();
    set_stall(p.extra);
    let mut lp = new_loop();
    let signal = lp.get_signal();
    let mut rng = Rng::new(p.extra as u64 ^ 0xC11);
    let done = Arc::new(AtomicU32::new(0));
    let mut joins = Vec::new();
    let block_on = p.variant & 1 == 1;
    let slot: Arc<Mutex<Option<Waker>>> = Arc::new(Mutex::new(None));
    let fut_polls = Arc::new(AtomicU32::new(0));
    let mut wakes_needed = 1 + rng.below(p.ops as u64) as u32;
    // the last thread ends with stop(); wakeup() so that run() has a reason to return;
    // in block_on mode (variant bit 1 clear) nobody stops and the future has to complete
    let stopper = !block_on || p.variant & 2 == 2;
    // variant bit 4 (block_on with a stopper): the future never completes however often it is
    // woken, so only the stop request can end block_on - while wakes keep arriving
    let never = block_on && stopper && p.variant & 4 == 4;
    let wakes_sent = wakes_needed + 1;
    if never {
        wakes_needed = 1_000_000;
    }
    for i in 1..=p.threads {
        let s = signal.clone();
        let done = done.clone();
        let n = rng.below(p.ops as u64 + 1) as u32;
        let is_last = i == p.threads;
        let slot = slot.clone();
        let mut ops: Vec<u8> = (0..n).map(|_| rng.below(2) as u8).collect();
        if block_on {
            ops = (0..wakes_sent).map(|_| 2u8).collect();
            // in half of the instances the stopping thread does nothing else: its stop() can
            // land anywhere, also inside the poll that completes the future
            if is_last && stopper && p.threads > 1 && (p.extra >> 7) & 1 == 1 {
                ops.clear();
            }
        }
        joins.push(shuttle::thread::spawn(move || {
            register_thread(i);
            sp();
            for (k, op) in ops.iter().enumerate() {
                match op {
                    0 => {
                        let b = log(Ev::OpBegin { th: i, op: "wakeup", arg: k as u64 });
                        s.wakeup();
                        log(Ev::OpEnd { th: i, op: "wakeup", arg: k as u64, ok: true });
                        // the current wait - or the next one - must return because of it
                        let mut seen = false;
                        for _ in 0..1500 {
                            seen = T.with(|t| {
                                let t = t.borrow();
                                t.events.iter().rev().take_while(|(s2, _)| *s2 > b).any(|(_, e)| matches!(e, Ev::WaitLeave { .. }))
                                    || t.events.iter().any(|(_, e)| matches!(e, Ev::OpEnd { op: "run", .. } | Ev::OpEnd { op: "block_on", .. }))
                            });
                            if seen || is_stuck() {
                                break;
                            }
                            shuttle::thread::yield_now();
                        }
                        if !seen {
                            violate("signal.wakeup_ignored", &["C11"], vec![], format!("wakeup() begun at history position {} returned, but no wait of the loop ended afterwards", b));
                        }
                    }
                    1 => {
                        // a stop that is not followed by a wakeup: takes effect whenever the
                        // loop next wakes. The property speaks of stops issued after run() has
                        // begun (run() itself resets the flag when it starts).
                        wait_run_begun();
                        log(Ev::OpBegin { th: i, op: "stop", arg: k as u64 });
                        s.stop();
                        log(Ev::OpEnd { th: i, op: "stop", arg: k as u64, ok: true });
                    }
                    _ => {
                        let mut tries = 0;
                        loop {
                            let w = slot.lock().unwrap().take();
                            if let Some(w) = w {
                                log(Ev::OpBegin { th: i, op: "wake", arg: k as u64 });
                                // both flavours (a waker's two entry points are separate code)
                                if (k as u32 + i) % 2 == 0 {
                                    w.wake_by_ref();
                                } else {
                                    w.wake();
                                }
                                log(Ev::OpEnd { th: i, op: "wake", arg: k as u64, ok: true });
                                break;
                            }
                            tries += 1;
                            if tries > 60 {
                                break;
                            }
                            shuttle::thread::yield_now();
                        }
                    }
                }
                sp();
            }
            if is_last && stopper {
                wait_run_begun();
                log(Ev::OpBegin { th: i, op: "stop", arg: 99 });
                s.stop();
                log(Ev::OpEnd { th: i, op: "stop", arg: 99, ok: true });
                sp();
                log(Ev::OpBegin { th: i, op: "wakeup", arg: 99 });
                s.wakeup();
                log(Ev::OpEnd { th: i, op: "wakeup", arg: 99, ok: true });
            }
            done.fetch_add(1, O::SeqCst);
        }));
        sp();
    }
    let mut iterations = 0u32;
    let ret: Result<Option<u64>, String>;
    if block_on {
        struct BFut {
            need: u32,
            polls: Arc<AtomicU32>,
            slot: Arc<Mutex<Option<Waker>>>,
        }
        impl std::future::Future for BFut {
            type Output = u64;
            fn poll(self: std::pin::Pin<&mut Self>, cx: &mut std::task::Context<'_>) -> std::task::Poll<u64> {
                let n = self.polls.fetch_add(1, O::SeqCst) + 1;
                log(Ev::Poll { task: 0, th: me() });
                if n > self.need {
                    // the future is done; other threads (a stop request) may get in before the
                    // poll has returned to block_on
                    sp();
                    std::task::Poll::Ready(42)
                } else {
                    *self.slot.lock().unwrap() = Some(cx.waker().clone());
                    sp();
                    std::task::Poll::Pending
                }
            }
        }
        log(Ev::OpBegin { th: 0, op: "block_on", arg: 0 });
        let sig2 = signal.clone();
        let r = lp.block_on(BFut { need: wakes_needed, polls: fut_polls.clone(), slot: slot.clone() }, &mut Ctx, |_| {
            iterations += 1;
            if is_stuck() {
                sig2.stop();
            }
        });
        ret = r.map_err(|e| e.to_string());
        log(Ev::OpEnd { th: 0, op: "block_on", arg: 0, ok: ret.is_ok() });
    } else {
        log(Ev::OpBegin { th: 0, op: "run", arg: 0 });
        let sig2 = signal.clone();
        let r = lp.run(None, &mut Ctx, |_| {
            iterations += 1;
            if is_stuck() {
                // give up: make run() return so that the verdict can be reported
                sig2.stop();
            }
        });
        // a stuck wait returns Ok(0) from the hook, so run() loops; the stuck flag ends it
        ret = r.map(|_| None).map_err(|e| e.to_string());
        log(Ev::OpEnd { th: 0, op: "run", arg: 0, ok: ret.is_ok() });
    }
    let stuck = is_stuck();
    for j in joins {
        let _ = j.join();
    }
    let evs = T.with(|t| t.borrow().events.clone());
    // ---- oracle
    let end_seq = evs.iter().find(|(_, e)| matches!(e, Ev::OpEnd { op: "run", .. } | Ev::OpEnd { op: "block_on", .. })).map(|(s, _)| *s).unwrap_or(u64::MAX);
    let first_stop_begin = evs.iter().find(|(_, e)| matches!(e, Ev::OpBegin { op: "stop", .. })).map(|(s, _)| *s);
    let pair_done = evs.iter().find(|(_, e)| matches!(e, Ev::OpEnd { op: "wakeup", arg: 99, .. })).map(|(s, _)| *s);
    if stuck {
        let mut flags = vec![if block_on { "block_on".to_string() } else { "run".to_string() }];
        if pair_done.is_some() {
            flags.push("after_stop_wakeup".into());
        }
        violate("signal.lost_wakeup", &["C11"], flags, "the loop waits forever although a wakeup()/stop()+wakeup()/waker.wake() completed and nothing consumed it".into());
    } else if let Err(e) = &ret {
        violate("tsim.dispatch_error", &["C11"], vec![], format!("run/block_on returned {}", e));
    } else {
        if !block_on || ret == Ok(None) {
            // returned because of stop: a stop() must have begun before
            if first_stop_begin.map(|s| s > end_seq).unwrap_or(true) {
                violate("signal.returned_without_stop", &["C11"], vec![], "run()/block_on() returned although no stop() had begun".into());
            }
        }
        if let Some(pd) = pair_done {
            if pd < end_seq {
                let waits_after = evs.iter().filter(|(s, e)| *s > pd && *s < end_seq && matches!(e, Ev::WaitEnter { .. })).count();
                if waits_after > 1 {
                    violate("signal.extra_iterations", &["C11"], vec![], format!("{} new waits were started after stop(); wakeup() had completed", waits_after));
                }
            }
        }
        if block_on {
            let polls = fut_polls.load(O::SeqCst);
            match ret {
                Ok(Some(42)) => {
                    if polls <= wakes_needed {
                        violate("blockon.result_without_ready", &["C11"], vec![], "block_on returned Some although the future never returned Ready".into());
                    }
                }
                Ok(None) => {
                    if polls > wakes_needed {
                        violate("blockon.none_after_ready", &["C11"], vec![], "block_on returned None although the future completed".into());
                    }
                }
                _ => {}
            }
            // every completed wake is followed by a poll (or by the end through stop)
            let wake_ends: Vec<u64> = evs.iter().filter_map(|(s, e)| if matches!(e, Ev::OpEnd { op: "wake", .. }) { Some(*s) } else { None }).collect();
            let wake_begins: Vec<u64> = evs.iter().filter_map(|(s, e)| if matches!(e, Ev::OpBegin { op: "wake", .. }) { Some(*s) } else { None }).collect();
            let poll_seqs: Vec<u64> = evs.iter().filter_map(|(s, e)| if matches!(e, Ev::Poll { .. }) { Some(*s) } else { None }).collect();
            for (b, _e) in wake_begins.iter().zip(wake_ends.iter()) {
                if ret == Ok(Some(42)) && !poll_seqs.iter().any(|p| p > b) {
                    violate("blockon.lost_wake", &["C11"], vec![], format!("wake begun at history position {} was never followed by a poll of the future", b));
                }
            }
        }
    }
    let _ = iterations;
    drop(signal);
    drop(lp);
    end_execution();
}

/// block (yielding) until the loop thread is past the point where run()/block_on() resets
/// the stop flag
fn wait_run_begun() {
    for _ in 0..5000 {
        let begun = T.with(|t| t.borrow().events.iter().any(|(_, e)| matches!(e, Ev::Point { site: Site::RunCheckStop, .. } | Ev::Point { site: Site::BlockOnSwap, .. })));
        if begun {
            return;
        }
        shuttle::thread::yield_now();
    }
}

// ------------------------------------------------------------------------------------------
// C10 (stream): a StreamSource fed and woken by other threads
// ------------------------------------------------------------------------------------------

#[derive(Default)]
struct SS {
    queue: std::collections::VecDeque<u64>,
    ended: bool,
    waker: Option<Waker>,
}

struct TStream(Arc<Mutex<SS>>);

impl futures_core::Stream for TStream {
    type Item = u64;
    fn poll_next(self: std::pin::Pin<&mut Self>, cx: &mut std::task::Context<'_>) -> std::task::Poll<Option<u64>> {
        {
            let mut s = self.0.lock().unwrap();
            log(Ev::Poll { task: 1000, th: me() });
            if let Some(v) = s.queue.pop_front() {
                return std::task::Poll::Ready(Some(v));
            }
            if s.ended {
                return std::task::Poll::Ready(None);
            }
            s.waker = Some(cx.waker().clone());
        }
        // the waker is registered and the queue was empty: a producer may get in before this
        // poll has returned to the source (a stream's poll_next is arbitrary code)
        sp();
        std::task::Poll::Pending
    }
}

pub fn c10_stream(p: &Params) {
    begin_execution();
    set_stall(p.extra);
    let mut lp = new_loop();
    let shared = Arc::new(Mutex::new(SS::default()));
    let src = calloop::stream::StreamSource::new(TStream(shared.clone())).unwrap();
    lp.handle()
        .insert_source(src, |ev, _, _| match ev {
            Some(v) => {
                log(Ev::Callback { src: "item", payload: v });
            }
            None => {
                log(Ev::Callback { src: "end", payload: 0 });
            }
        })
        .unwrap();
    let done = Arc::new(AtomicU32::new(0));
    let mut rng = Rng::new(p.extra as u64 ^ 0x57);
    let mut joins = Vec::new();
    let remaining = Arc::new(AtomicU32::new(p.threads));
    for i in 1..=p.threads {
        let sh = shared.clone();
        let done = done.clone();
        let n = 1 + rng.below(p.ops as u64) as u32;
        let remaining = remaining.clone();
        joins.push(shuttle::thread::spawn(move || {
            register_thread(i);
            sp();
            for k in 0..n {
                let v = ((i as u64) << 32) | k as u64;
                log(Ev::OpBegin { th: i, op: "push", arg: v });
                let w = {
                    let mut s = sh.lock().unwrap();
                    s.queue.push_back(v);
                    s.waker.take()
                };
                sp();
                if let Some(w) = w {
                    if k % 2 == 0 {
                        w.wake_by_ref();
                    } else {
                        w.wake();
                    }
                }
                log(Ev::OpEnd { th: i, op: "push", arg: v, ok: true });
                sp();
            }
            // the last producer ends the stream
            if remaining.fetch_sub(1, O::SeqCst) == 1 {
                log(Ev::OpBegin { th: i, op: "end", arg: 0 });
                let w = {
                    let mut s = sh.lock().unwrap();
                    s.ended = true;
                    s.waker.take()
                };
                sp();
                if let Some(w) = w {
                    w.wake();
                }
                log(Ev::OpEnd { th: i, op: "end", arg: 0, ok: true });
            }
            done.fetch_add(1, O::SeqCst);
        }));
        sp();
    }
    let h = lp.handle();
    let finished = pump(&mut lp, &done, p.threads, &|| false);
    for j in joins {
        let _ = j.join();
    }
    let slots = h.verif_stats().occupied_slots;
    let evs = T.with(|t| t.borrow().events.clone());
    let mut pushed: Vec<u64> = Vec::new();
    let mut items: Vec<(u64, u64)> = Vec::new();
    let mut ends: Vec<u64> = Vec::new();
    for (s, e) in &evs {
        match e {
            Ev::OpEnd { op: "push", arg, .. } => pushed.push(*arg),
            Ev::Callback { src: "item", payload } => items.push((*s, *payload)),
            Ev::Callback { src: "end", .. } => ends.push(*s),
            Ev::Poll { task: 1000, th } if *th != 0 => violate("stream.polled_off_thread", &["C10"], vec![], format!("the stream was polled on thread {}", th)),
            _ => {}
        }
    }
    if !finished {
        violate("exec.stuck", &["C10"], vec!["stream".into()], "producer threads never finished".into());
    } else {
        for v in &pushed {
            let n = items.iter().filter(|(_, x)| x == v).count();
            if n != 1 {
                violate(if n == 0 { "stream.lost_item" } else { "stream.duplicate_item" }, &["C10", "C02"], vec![], format!("item {:#x} was pushed (and its wake completed) but delivered {} times - the loop is quiescent", v, n));
            }
        }
        let mut last: std::collections::BTreeMap<u64, u64> = Default::default();
        for (_, v) in &items {
            let th = v >> 32;
            let k = v & 0xffff_ffff;
            if let Some(prev) = last.get(&th) {
                if *prev >= k {
                    violate("stream.reordered", &["C10"], vec![], format!("items of producer {} delivered out of order", th));
                }
            }
            last.insert(th, k);
        }
        match ends.len() {
            1 => {
                if items.iter().any(|(s, _)| *s > ends[0]) {
                    violate("stream.after_end", &["C10"], vec![], "an item was delivered after the final None".into());
                }
                if slots != 0 {
                    violate("stream.not_removed_after_end", &["C10", "C06"], vec![], "the stream source stayed in the loop after its final None".into());
                }
            }
            0 => violate("stream.end_missing", &["C10", "C02"], vec![], "the stream ended and its wake completed, the loop is quiescent, but None was never delivered".into()),
            n => violate("stream.end_twice", &["C10"], vec![], format!("None was delivered {} times", n)),
        }
    }
    drop(h);
    drop(lp);
    end_execution();
}

pub fn run_scenario(p: &Params) {
    match p.scenario.as_str() {
        "C03" => c03(p),
        "C04" => c04(p),
        "C10" if p.variant >= 6 => c10_stream(p),
        "C10" => c10(p),
        "C11" => c11(p),
        _ => panic!("unknown scenario"),
    }
}
