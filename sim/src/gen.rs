//! Seeded program generation. All random choices are resolved here; executing a program
//! draws nothing. Swarm style: every run enables its own subset of source kinds, operation
//! kinds and fault kinds, with its own sizes and rates.

use crate::program::*;
use crate::rng::Rng;

pub const MS: u64 = 1_000_000;
pub const NK: usize = 9;

#[derive(Clone, Copy, Debug, PartialEq, Eq)]
pub enum KindTag {
    Ping,
    Channel,
    Timer,
    Generic,
    Executor,
    Stream,
    Composite,
    Lifecycle,
    Transient,
}

#[derive(Clone, Debug)]
pub struct Profile {
    pub name: &'static str,
    /// weights of source kinds: ping, channel, timer, generic, lifecycle, executor, stream,
    /// composite, transient
    pub kinds: [u32; NK],
    pub w_insert: u32,
    pub w_token: u32,
    pub w_cause: u32,
    pub w_dispatch: u32,
    pub w_advance: u32,
    pub w_idle: u32,
    pub w_misc: u32,
    pub steps: (u64, u64),
    pub max_sources: u64,
    pub script_len: (u64, u64),
    pub script_ops: (u64, u64),
    pub faults: bool,
    pub scripted_faults: bool,
    pub natural_faults: bool,
    pub table_every: u32,
    pub env_events: bool,
    pub permute: bool,
    /// bias towards remove+insert in one callback (slot reuse)
    pub reuse_bias: u32,
    pub modes: bool,
    pub err_returns: bool,
    /// weight of adapter operations among the miscellaneous ones
    pub adapters: u32,
    /// weight of signal operations
    pub signals: u32,
    /// how much more often run() / block_on() replace a plain dispatch
    pub run_bias: u64,
}

pub fn profile(name: &str) -> Profile {
    let base = Profile {
        name: "core",
        kinds: [3, 3, 3, 3, 1, 1, 1, 0, 1],
        w_insert: 5,
        w_token: 6,
        w_cause: 8,
        w_dispatch: 7,
        w_advance: 3,
        w_idle: 2,
        w_misc: 2,
        steps: (6, 40),
        max_sources: 7,
        script_len: (0, 4),
        script_ops: (0, 3),
        faults: false,
        scripted_faults: false,
        natural_faults: false,
        table_every: 0,
        env_events: true,
        permute: true,
        reuse_bias: 1,
        modes: true,
        err_returns: false,
        adapters: 0,
        signals: 0,
        run_bias: 1,
    };
    match name {
        "C01" => Profile { name: "C01", w_token: 8, reuse_bias: 4, kinds: [4, 3, 3, 4, 2, 1, 0, 5, 0], w_cause: 10, err_returns: true, adapters: 2, ..base },
        "C02" => Profile { name: "C02", faults: true, scripted_faults: true, w_cause: 12, max_sources: 8, kinds: [3, 3, 2, 6, 0, 1, 0, 0, 0], err_returns: true, adapters: 2, ..base },
        "C03" => Profile { name: "C03", kinds: [10, 0, 1, 2, 0, 0, 0, 0, 0], w_cause: 12, err_returns: true, ..base },
        "C04" => Profile { name: "C04", kinds: [1, 10, 1, 1, 0, 0, 0, 0, 0], w_cause: 14, err_returns: true, ..base },
        "C05" => Profile { name: "C05", scripted_faults: true, kinds: [2, 1, 10, 1, 0, 0, 0, 2, 0], w_advance: 6, err_returns: true, ..base },
        "C06" => Profile { name: "C06", w_token: 9, w_insert: 7, reuse_bias: 3, signals: 1, err_returns: true, ..base },
        "C07" => Profile { name: "C07", w_token: 10, err_returns: true, scripted_faults: true, signals: 2, kinds: [3, 3, 3, 3, 3, 1, 1, 0, 1], ..base },
        "C08" => Profile { name: "C08", kinds: [3, 3, 3, 3, 1, 3, 1, 0, 0], adapters: 3, script_len: (1, 5), script_ops: (1, 6), w_idle: 4, ..base },
        "C09" => Profile { name: "C09", kinds: [2, 1, 2, 8, 0, 0, 0, 0, 0], err_returns: true, script_len: (1, 5), ..base },
        "C10" => Profile { name: "C10", kinds: [1, 1, 1, 0, 0, 8, 5, 0, 0], w_cause: 14, ..base },
        "C19" => Profile { name: "C19", kinds: [1, 0, 1, 0, 0, 0, 0, 0, 0], signals: 14, w_token: 4, max_sources: 3, ..base },
        "C18" => Profile { name: "C18", kinds: [1, 0, 1, 1, 0, 0, 0, 3, 10], w_token: 9, w_cause: 10, ..base },
        "C17" => Profile { name: "C17", faults: true, kinds: [1, 0, 1, 2, 0, 8, 0, 0, 0], adapters: 12, w_cause: 10, max_sources: 5, natural_faults: true, err_returns: true, ..base },
        "C11" => Profile { name: "C11", kinds: [3, 2, 3, 2, 0, 1, 0, 0, 0], w_dispatch: 12, w_misc: 5, run_bias: 5, ..base },
        "C12" => Profile { name: "C12", scripted_faults: true, kinds: [2, 1, 8, 1, 2, 0, 0, 2, 0], w_dispatch: 10, w_advance: 5, w_cause: 3, ..base },
        "C13" => Profile { name: "C13", w_idle: 10, err_returns: true, ..base },
        "C15" => Profile { name: "C15", adapters: 3, faults: false, scripted_faults: true, natural_faults: true, err_returns: true, kinds: [3, 2, 3, 6, 0, 0, 0, 0, 2], ..base },
        "C14" => Profile { name: "C14", kinds: [2, 1, 2, 2, 8, 0, 0, 0, 0], w_token: 9, w_misc: 4, faults: true, scripted_faults: true, err_returns: true, ..base },
        "C16" => Profile { name: "C16", kinds: [2, 2, 0, 10, 0, 2, 0, 0, 0], table_every: 1, w_token: 8, err_returns: true, adapters: 4, ..base },
        _ => base,
    }
}

pub struct G {
    pub rng: Rng,
    pub p: Profile,
    pub next_id: Id,
    pub srcs: Vec<(Id, KindTag, bool /*keep*/)>,
    pub idles: Vec<Id>,
    pub tasks: Vec<Id>,
    pub adapters: Vec<Id>,
    pub sigsrc: Vec<Id>,
    /// how many signals of the universe this run uses
    pub nsig: u64,
    /// per-run swarm switches
    sw: Swarm,
}

#[derive(Clone, Debug)]
struct Swarm {
    kinds: [bool; NK],
    token_ops: [bool; 4], // remove disable enable update
    in_cb_ops: bool,
    nested_insert: bool,
    idles: bool,
    clones: bool,
    peers: bool,
    retn: bool,
    stale: bool,
}

fn gen_swarm(rng: &mut Rng, p: &Profile) -> Swarm {
    let mut kinds = [false; NK];
    for i in 0..NK {
        kinds[i] = p.kinds[i] > 0 && rng.chance(3, 4);
    }
    if !kinds.iter().any(|x| *x) {
        let w = p.kinds;
        kinds[rng.weighted(&w)] = true;
    }
    Swarm {
        kinds,
        token_ops: [rng.chance(3, 4), rng.chance(3, 4), rng.chance(3, 4), rng.chance(3, 4)],
        in_cb_ops: rng.chance(4, 5),
        nested_insert: rng.chance(1, 2),
        idles: rng.chance(2, 3),
        clones: rng.chance(1, 2),
        peers: rng.chance(3, 4),
        retn: rng.chance(3, 4),
        stale: rng.chance(3, 4),
    }
}

impl G {
    pub fn fresh(&mut self) -> Id {
        let i = self.next_id;
        self.next_id += 1;
        i
    }

    fn any_src(&mut self) -> Option<(Id, KindTag, bool)> {
        if self.srcs.is_empty() {
            return None;
        }
        // bias towards recent sources
        let n = self.srcs.len() as u64;
        let i = if self.rng.chance(1, 2) { n - 1 - self.rng.below(n.min(3)) } else { self.rng.below(n) };
        Some(self.srcs[i as usize])
    }

    fn src_of(&mut self, k: KindTag) -> Option<Id> {
        let c: Vec<Id> = self.srcs.iter().filter(|s| s.1 == k).map(|s| s.0).collect();
        if c.is_empty() {
            None
        } else {
            Some(*self.rng.pick(&c))
        }
    }

    fn deadline(&mut self) -> Deadline {
        match self.rng.below(12) {
            0 | 1 => Deadline::Immediate,
            2 => Deadline::In(0),
            3 => {
                if self.rng.chance(1, 2) {
                    Deadline::In(u64::MAX)
                } else {
                    Deadline::In(self.far())
                }
            }
            4 | 5 => Deadline::At(self.rng.below(60) * MS),
            _ => Deadline::In(self.rng.range(1, 40) * MS),
        }
    }

    /// centuries away, around and beyond 2^63 ns (but such that now + d still fits 64 bits)
    pub fn far(&mut self) -> u64 {
        const Y: u64 = 31_557_600_000_000_000;
        *self.rng.pick(&[100 * Y, (1u64 << 63) - 5 * MS, (1u64 << 63) + 150 * MS, 300 * Y, (1u64 << 63) + (1u64 << 62), 500 * Y])
    }

    fn timeout(&mut self) -> Timeout {
        match self.rng.below(10) {
            0..=4 => Timeout::Zero,
            5..=7 => Timeout::Some(self.rng.range(1, 30) * MS),
            8 => Timeout::Some(self.rng.range(1, 5) * 100 * MS),
            _ => {
                match self.rng.below(8) {
                    0 => Timeout::Some(self.far()),
                    1 => Timeout::Max,
                    _ => Timeout::None,
                }
            }
        }
    }

    fn ret_for(&mut self, k: KindTag) -> Ret {
        if !self.sw.retn {
            return if k == KindTag::Timer { Ret::TDrop } else { Ret::Continue };
        }
        match k {
            KindTag::Timer => match self.rng.below(8) {
                0..=2 => Ret::TDrop,
                3 | 4 => Ret::TIn(self.rng.range(0, 30) * MS),
                5 => Ret::TAt(self.rng.below(80) * MS),
                6 => Ret::TIn(self.rng.range(1, 5) * MS),
                _ => {
                    if self.rng.chance(1, 6) {
                        if self.rng.chance(1, 2) {
                            Ret::TIn(u64::MAX)
                        } else {
                            Ret::TIn(self.far())
                        }
                    } else {
                        Ret::TDrop
                    }
                }
            },
            KindTag::Transient => match self.rng.below(10) {
                0..=5 => Ret::Continue,
                6 | 7 => Ret::Reregister,
                8 => {
                    if self.rng.chance(1, 3) {
                        Ret::DisableBoth
                    } else {
                        Ret::Disable
                    }
                }
                _ => Ret::Remove,
            },
            KindTag::Generic => match self.rng.below(10) {
                0..=4 => Ret::Continue,
                5 => Ret::Reregister,
                6 => Ret::Disable,
                7 => {
                    if self.rng.chance(1, 3) {
                        Ret::UnwrapRemove
                    } else {
                        Ret::Remove
                    }
                }
                8 => {
                    if self.p.err_returns {
                        Ret::Err
                    } else {
                        Ret::Continue
                    }
                }
                _ => Ret::Continue,
            },
            // a socket child of the composite source asks for its own re-registration
            KindTag::Composite => {
                if self.rng.chance(1, 4) {
                    Ret::Reregister
                } else {
                    Ret::Continue
                }
            }
            _ => Ret::Continue,
        }
    }

    fn script(&mut self, me: Id, k: KindTag, depth: u32) -> Script {
        let n = self.rng.range(self.p.script_len.0, self.p.script_len.1);
        let mut out = Vec::new();
        for _ in 0..n {
            let m = if self.sw.in_cb_ops { self.rng.range(self.p.script_ops.0, self.p.script_ops.1) } else { 0 };
            let mut ops = Vec::new();
            for _ in 0..m {
                ops.extend(self.cb_op(Some(me), depth));
            }
            let ret = self.ret_for(k);
            out.push(CbEntry { ops, ret });
        }
        out
    }

    /// one operation inside a callback (may expand to two: remove + insert for slot reuse)
    pub fn cb_op(&mut self, me: Option<Id>, depth: u32) -> Vec<Op> {
        if self.p.adapters > 0 && !self.adapters.is_empty() && self.rng.chance(1, 10) {
            // adapters from inside callbacks: release one (and reuse its slot at once), or
            // any other adapter operation
            if self.rng.chance(1, 2) {
                let a = *self.rng.pick(&self.adapters.clone());
                let mut v = vec![if self.rng.chance(1, 2) { Op::AdapterDrop(a) } else { Op::AdapterIntoInner(a) }];
                if depth < 2 && self.rng.chance(2, 3) {
                    v.push(self.insert_op(depth + 1));
                }
                return v;
            }
            return crate::gen2::adapter_op(self).into_iter().collect();
        }
        if self.p.signals > 0 && !self.sigsrc.is_empty() && self.rng.chance(1, 4) {
            // a callback acts on a Signals source (whose own event may sit later in this batch)
            let s = *self.rng.pick(&self.sigsrc.clone());
            return vec![match self.rng.below(6) {
                0 | 1 | 2 => Op::Disable(s),
                3 => Op::Enable(s),
                4 => Op::Update(s),
                _ => Op::Remove(s),
            }];
        }
        let target_self = me.is_some() && self.rng.chance(2, 5);
        let tgt = if target_self { me } else { self.any_src().map(|s| s.0) };
        let r = self.rng.below(20 + self.p.reuse_bias as u64 * 2);
        match r {
            0 | 1 => tgt.map(|t| vec![Op::Remove(t)]).unwrap_or_default(),
            2 | 3 => tgt.map(|t| vec![Op::Disable(t)]).unwrap_or_default(),
            4 => tgt.map(|t| vec![Op::Update(t)]).unwrap_or_default(),
            5 => self.any_src().map(|s| vec![Op::Enable(s.0)]).unwrap_or_default(),
            6..=9 => self.cause_op().into_iter().collect(),
            10 | 11 => {
                if depth < 2 && self.sw.nested_insert && (self.srcs.len() as u64) < self.p.max_sources + 3 {
                    vec![self.insert_op(depth + 1)]
                } else {
                    vec![]
                }
            }
            12 => {
                if self.sw.idles {
                    vec![self.idle_op(depth + 1)]
                } else {
                    vec![]
                }
            }
            13 => {
                if let Some(i) = self.idles.last().copied() {
                    vec![if self.rng.chance(2, 3) { Op::CancelIdle(i) } else { Op::DropIdle(i) }]
                } else {
                    vec![]
                }
            }
            14 => self.timer_set_op().into_iter().collect(),
            15 => vec![if self.rng.chance(1, 3) { Op::Stop } else { Op::Wakeup }],
            16..=19 => self.cause_op().into_iter().collect(),
            _ => {
                // slot reuse: remove something, insert right away
                if depth < 2 {
                    let mut v = Vec::new();
                    if let Some(t) = tgt {
                        v.push(Op::Remove(t));
                    }
                    v.push(self.insert_op(depth + 1));
                    v
                } else {
                    vec![]
                }
            }
        }
    }

    fn timer_set_op(&mut self) -> Option<Op> {
        let c: Vec<Id> = self.srcs.iter().filter(|s| s.1 == KindTag::Timer && s.2).map(|s| s.0).collect();
        if c.is_empty() {
            return None;
        }
        let id = *self.rng.pick(&c);
        let dl = match self.rng.below(4) {
            0 => Deadline::In(self.rng.range(1, 40) * MS),
            1 => {
                match self.rng.below(4) {
                    0 | 1 => Deadline::In(3_600_000 * MS),
                    2 => Deadline::In(self.far()),
                    _ => Deadline::In(u64::MAX),
                }
            }
            2 => Deadline::Immediate,
            _ => Deadline::At(self.rng.below(80) * MS),
        };
        Some(Op::TimerSet(id, dl))
    }

    fn cause_op(&mut self) -> Option<Op> {
        let (id, k, keep) = self.any_src()?;
        Some(match k {
            KindTag::Ping => match self.rng.below(10) {
                0 if self.sw.clones => Op::ClonePing(id),
                1 if self.sw.clones => Op::DropPing(id),
                _ => Op::Ping(id),
            },
            KindTag::Lifecycle => {
                if self.rng.chance(1, 3) {
                    Op::PeerWrite(id, 3)
                } else {
                    Op::Ping(id)
                }
            }
            KindTag::Channel if self.rng.chance(1, 80) => Op::SendMany(id, *self.rng.pick(&[1023u32, 1024, 1025, 2049])),
            KindTag::Channel => match self.rng.below(10) {
                0 if self.sw.clones => Op::CloneSender(id),
                1 if self.sw.clones => Op::DropSender(id),
                _ => Op::Send(id),
            },
            KindTag::Timer => {
                if keep {
                    return self.timer_set_op();
                } else {
                    Op::Advance(self.rng.range(1, 20) * MS)
                }
            }
            KindTag::Generic => match self.rng.below(12) {
                0..=4 => Op::PeerWrite(id, self.rng.range(1, 64) as u32),
                5 | 6 => Op::OwnRead(id, self.rng.range(1, 64) as u32),
                7 if self.sw.peers => Op::PeerRead(id, self.rng.range(1, 8192) as u32),
                8 if self.sw.peers => Op::FillOut(id),
                9 if self.sw.peers => Op::PeerClose(id),
                10 if keep && self.p.modes => Op::GenericSet(id, self.rng.below(4) as u8, if self.rng.chance(1, 2) { 9 } else { self.rng.below(3) as u8 }),
                // interests going back and forth around disable/enable (C09: what the poller holds
                // is what the last applied update asked for)
                9 | 11 if keep && self.p.modes && self.p.name == "C09" => Op::GenericSet(id, *self.rng.pick(&[1u8, 1, 3, 2]), 9),
                _ => Op::PeerWrite(id, 1),
            },
            _ => return crate::gen2::cause_op2(self, id, k),
        })
    }

    fn insert_op(&mut self, depth: u32) -> Op {
        let id = self.fresh();
        let mut w = self.p.kinds;
        for i in 0..NK {
            if !self.sw.kinds[i] {
                w[i] = 0;
            }
        }
        let k = match self.rng.weighted(&w) {
            0 => KindTag::Ping,
            1 => KindTag::Channel,
            2 => KindTag::Timer,
            3 => KindTag::Generic,
            4 => KindTag::Lifecycle,
            5 => KindTag::Executor,
            6 => KindTag::Stream,
            7 => KindTag::Composite,
            _ => KindTag::Transient,
        };
        let keep = matches!(k, KindTag::Timer | KindTag::Generic) && self.rng.chance(1, 2);
        // register before generating the script so the script can refer to itself and others
        self.srcs.push((id, k, keep));
        let script = self.script(id, k, depth);
        match k {
            KindTag::Ping => Op::InsertPing { id, script },
            KindTag::Channel => {
                let bound = match self.rng.below(8) {
                    0 => Some(0),
                    1 => Some(1),
                    2 => Some(2),
                    3 => Some(8),
                    // bounds above the 1024 batch limit
                    4 => Some(*self.rng.pick(&[1025u32, 1500, 4096])),
                    _ => None,
                };
                Op::InsertChannel { id, bound, script }
            }
            KindTag::Timer => Op::InsertTimer { id, dl: self.deadline(), keep, script },
            KindTag::Lifecycle => {
                let n = self.rng.below(6);
                let synth: Vec<bool> = (0..n).map(|_| self.rng.chance(1, 3)).collect();
                let with_ping = self.rng.chance(2, 3);
                let two = with_ping && self.rng.chance(1, 2);
                let fail_step2 = two && (self.p.faults || self.p.scripted_faults || self.p.name == "C01") && self.rng.chance(1, 5);
                let keep_rejected = self.rng.chance(2, 3);
                let sock = self.rng.chance(1, 3);
                let synth_on_sock = sock && self.rng.chance(2, 3);
                Op::InsertLifecycle { id, with_ping, with_timer: None, synth, script, two, fail_step2, keep_rejected, sock, synth_on_sock, forgetful: self.rng.chance(1, 3), slow: if self.rng.chance(1, 4) { *self.rng.pick(&[1u64, 5, 50]) * MS } else { 0 } }
            }
            KindTag::Generic => {
                let mut fd = match self.rng.below(6) {
                    0 => FdSpec::PipeR,
                    1 => FdSpec::PipeW,
                    _ => FdSpec::Sock,
                };
                if self.p.natural_faults && self.rng.chance(1, 5) {
                    fd = match self.rng.below(3) {
                        0 => FdSpec::RegularFile,
                        _ => {
                            if let Some(o) = self.src_of(KindTag::Generic) {
                                if o != id {
                                    FdSpec::DupOf(o)
                                } else {
                                    FdSpec::Sock
                                }
                            } else {
                                FdSpec::Sock
                            }
                        }
                    };
                } else if self.p.table_every > 0 && self.rng.chance(1, 5) {
                    if let Some(o) = self.src_of(KindTag::Generic) {
                        if o != id {
                            fd = FdSpec::Released(o);
                        }
                    }
                }
                let (interest, mode) = if self.p.modes {
                    let i = *self.rng.pick(&[1u8, 1, 1, 2, 3, 3, 0]);
                    let m = *self.rng.pick(&[0u8, 0, 0, 1, 2, 2]);
                    (i, m)
                } else {
                    (1, 0)
                };
                Op::InsertGeneric { id, fd, interest, mode, keep, script }
            }
            _ => crate::gen2::insert_op2(self, id, k, script),
        }
    }

    fn idle_op(&mut self, depth: u32) -> Op {
        let id = self.fresh();
        self.idles.push(id);
        let n = self.rng.below(3);
        let mut ops = Vec::new();
        for _ in 0..n {
            if depth < 3 && self.rng.chance(1, 3) {
                ops.push(self.idle_op(depth + 1));
            } else {
                ops.extend(self.cb_op(None, depth.max(1)));
            }
        }
        Op::InsertIdle { id, ops }
    }

    fn top_op(&mut self) -> Vec<Op> {
        let p = self.p.clone();
        if p.signals > 0 && self.rng.below(20) < p.signals as u64 {
            return crate::gen2::signal_op(self).into_iter().collect();
        }
        if p.adapters > 0 && self.rng.below(40) < p.adapters as u64 {
            return crate::gen2::adapter_op(self).into_iter().collect();
        }
        let mut w = [p.w_insert, p.w_token, p.w_cause, p.w_dispatch, p.w_advance, p.w_idle, p.w_misc];
        if self.srcs.is_empty() {
            w[1] = 0;
            w[2] = 0;
        }
        if self.srcs.len() as u64 >= p.max_sources {
            w[0] = 0;
        }
        if !self.sw.idles {
            w[5] = 0;
        }
        if p.kinds[4] >= 3 && self.rng.chance(1, 25) {
            // every lifecycle source is disabled (or removed) at once: the loop's lifecycle set
            // becomes empty while other sources go on
            let life: Vec<Id> = self.srcs.iter().filter(|s| s.1 == KindTag::Lifecycle).map(|s| s.0).collect();
            if !life.is_empty() {
                let mut v = Vec::new();
                // often right after a dispatch in which the before_sleep of the last-listed one
                // failed (what earlier ones had returned by then is left over in the loop)
                if (p.scripted_faults || p.faults) && life.len() >= 2 && self.rng.chance(1, 2) {
                    v.push(Op::FailNext { id: *life.last().unwrap(), what: 5, nth: 0 });
                    v.push(Op::Dispatch(Timeout::Zero));
                }
                // which one is removed rather than disabled, if any
                let removed = if self.rng.chance(1, 2) { Some(self.rng.below(life.len() as u64) as usize) } else { None };
                v.extend(life.iter().enumerate().map(|(i, id)| if Some(i) == removed { Op::Remove(*id) } else { Op::Disable(*id) }));
                v.push(Op::Dispatch(Timeout::Zero));
                return v;
            }
        }
        if p.modes && p.kinds[3] >= 3 && self.rng.chance(1, 30) {
            // an fd source whose interest goes back and forth across a disable/enable gap: what
            // the poller holds afterwards has to be what was asked for last, whatever had been
            // applied before the gap
            let gens: Vec<Id> = self.srcs.iter().filter(|s| s.1 == KindTag::Generic && s.2).map(|s| s.0).collect();
            if !gens.is_empty() {
                let id = *self.rng.pick(&gens);
                let a = *self.rng.pick(&[1u8, 3, 2]);
                let b = *self.rng.pick(&[1u8, 3, 2, 0]);
                let mode = if self.rng.chance(3, 4) { 9 } else { self.rng.below(3) as u8 };
                let seq = vec![Op::GenericSet(id, a, mode), Op::Disable(id), Op::GenericSet(id, b, 9), Op::Enable(id), Op::GenericSet(id, a, 9), Op::PeerWrite(id, 1), Op::Dispatch(Timeout::Zero)];
                return seq.into_iter().filter(|_| !self.rng.chance(1, 6)).collect();
            }
        }
        if p.scripted_faults && p.err_returns && (self.srcs.len() as u64) < p.max_sources && self.rng.chance(1, 50) {
            // a source whose callback asks for its own disable / update, then fails - and the
            // (un)registration that request leads to fails as well: the dispatch reports the
            // callback's error, the first one
            let id = self.fresh();
            self.srcs.push((id, KindTag::Generic, true));
            let upd = self.rng.chance(1, 2);
            let script = vec![CbEntry { ops: vec![if upd { Op::Update(id) } else { Op::Disable(id) }], ret: Ret::Err }];
            return vec![
                Op::InsertGeneric { id, fd: FdSpec::Sock, interest: 1, mode: 0, keep: true, script },
                Op::FailNext { id, what: if upd { 2 } else { 3 }, nth: 0 },
                Op::PeerWrite(id, 1),
                Op::Dispatch(Timeout::Zero),
            ];
        }
        if p.kinds[8] >= 5 && (self.srcs.len() as u64) + 1 < p.max_sources && self.rng.chance(1, 25) {
            // a wrapper whose parent is disabled by another source's callback while the wrapper's
            // own event is already in the batch, around a child that answers that event
            let (a, t) = (self.fresh(), self.fresh());
            self.srcs.push((a, KindTag::Ping, false));
            self.srcs.push((t, KindTag::Transient, false));
            let ret = *self.rng.pick(&[Ret::Disable, Ret::Remove, Ret::Remove, Ret::Continue, Ret::Reregister]);
            return vec![
                Op::InsertPing { id: a, script: vec![CbEntry { ops: vec![Op::Disable(t)], ret: Ret::Continue }] },
                Op::InsertTransient { id: t, child: ChildSpec::Eager, from_default: false, script: vec![CbEntry { ops: vec![], ret }] },
                Op::PeerWrite(t, 1),
                Op::Ping(a),
                Op::Dispatch(Timeout::Zero),
            ];
        }
        if p.kinds[7] >= 2 && (self.srcs.len() as u64) + 1 < p.max_sources && self.rng.chance(1, 40) {
            // a source made of several sub-sources, one of them a timer parked without a
            // deadline; another source's callback arms it in the middle of the dispatch in which
            // a later sibling's event has already been collected
            let (c, t) = (self.fresh(), self.fresh());
            self.srcs.push((c, KindTag::Composite, false));
            self.srcs.push((t, KindTag::Timer, false));
            let mut children = vec![ChildSpec::ParkedTimer];
            for _ in 0..self.rng.range(1, 3) {
                children.push(if self.rng.chance(1, 2) { ChildSpec::Ping } else { ChildSpec::Timer(Deadline::In(self.rng.range(0, 2) * MS)) });
            }
            if self.rng.chance(1, 3) {
                children.rotate_right(1);
            }
            let n = children.len() as u32;
            let mut v = vec![
                Op::InsertComposite { id: c, children, script: vec![] },
                Op::InsertTimer { id: t, dl: Deadline::In(self.rng.range(0, 2) * MS), keep: false, script: vec![CbEntry { ops: vec![Op::ArmChildTimer(c, u32::MAX, self.rng.range(0, 3) * MS)], ret: Ret::Continue }] },
            ];
            for i in 0..n {
                if self.rng.chance(1, 2) {
                    v.push(Op::PingChild(c, i));
                }
            }
            v.push(Op::Advance(2 * MS));
            v.push(Op::Dispatch(Timeout::Zero));
            v.push(Op::Dispatch(Timeout::Some(5 * MS)));
            return v;
        }
        if p.adapters > 0 && !self.adapters.is_empty() && self.rng.chance(1, 40) {
            // a source the program keeps is handed an adapter which it drops inside one of its
            // own (un)registration calls, and goes through exactly that call: removed and
            // registered again, disabled and enabled, updated
            let kept: Vec<Id> = self.srcs.iter().filter(|s| s.2).map(|s| s.0).collect();
            if !kept.is_empty() {
                let s = *self.rng.pick(&kept);
                let a = *self.rng.pick(&self.adapters.clone());
                return match self.rng.below(3) {
                    0 => vec![Op::AdapterGiveTo(a, s, 2), Op::Remove(s), Op::ReinsertKept(s)],
                    1 => vec![Op::AdapterGiveTo(a, s, 2), Op::Disable(s), Op::Enable(s)],
                    _ => vec![Op::AdapterGiveTo(a, s, 1), Op::Update(s)],
                };
            }
        }
        match self.rng.weighted(&w) {
            0 => vec![self.insert_op(0)],
            1 => {
                let Some((id, _, keep)) = self.any_src() else { return vec![] };
                let mut cands = vec![];
                if self.sw.token_ops[0] {
                    cands.push(0);
                }
                if self.sw.token_ops[1] {
                    cands.push(1);
                    cands.push(1);
                }
                if self.sw.token_ops[2] {
                    cands.push(2);
                    cands.push(2);
                }
                if self.sw.token_ops[3] {
                    cands.push(3);
                }
                if keep {
                    cands.push(4);
                }
                if cands.is_empty() {
                    return vec![];
                }
                match *self.rng.pick(&cands) {
                    0 => vec![Op::Remove(id)],
                    1 => vec![Op::Disable(id)],
                    2 => vec![Op::Enable(id)],
                    3 => vec![Op::Update(id)],
                    _ => vec![match self.rng.below(6) {
                        0 | 1 | 2 => Op::TakeSource(id),
                        3 => Op::DropDispatcher(id),
                        _ => Op::ReinsertKept(id),
                    }],
                }
            }
            2 => self.cause_op().into_iter().collect(),
            3 => {
                if self.rng.chance(self.p.run_bias, 24) {
                    vec![Op::BlockOn { pendings: self.rng.below(4) as u32, self_wake: self.rng.chance(2, 3), max_iters: self.rng.range(1, 6) as u32 }]
                } else if self.rng.chance(self.p.run_bias, 12) {
                    vec![Op::Run { timeout: self.timeout(), iters: self.rng.range(1, 4) as u32 }]
                } else {
                    vec![Op::Dispatch(self.timeout())]
                }
            }
            4 => vec![Op::Advance(self.rng.range(0, 40) * MS)],
            5 => {
                if self.rng.chance(2, 3) || self.idles.is_empty() {
                    vec![self.idle_op(0)]
                } else {
                    let i = *self.rng.pick(&self.idles.clone());
                    vec![if self.rng.chance(2, 3) { Op::CancelIdle(i) } else { Op::DropIdle(i) }]
                }
            }
            _ => match self.rng.below(6) {
                0 => vec![if self.rng.chance(1, 4) { Op::Stop } else { Op::Wakeup }],
                1 if self.p.scripted_faults => {
                    let Some((id, _, _)) = self.any_src() else { return vec![] };
                    vec![Op::FailNext { id, what: self.rng.range(1, 5) as u8, nth: self.rng.below(2) as u32 }]
                }
                2 => self.timer_set_op().into_iter().collect(),
                _ => vec![Op::Dispatch(Timeout::Zero)],
            },
        }
    }
}

pub fn generate(profile_name: &str, seed: u64) -> Program {
    let p = profile(profile_name);
    let mut rng = Rng::new(seed ^ 0xC0FF_EE00_0000_0000);
    let sw = gen_swarm(&mut rng, &p);
    let mut g = G { rng, p: p.clone(), next_id: 0, srcs: vec![], idles: vec![], tasks: vec![], adapters: vec![], sigsrc: vec![], nsig: 4, sw };
    if p.signals > 0 {
        g.nsig = *g.rng.pick(&[2u64, 4, 4, 10, 11, 11]);
    }
    let mut n = g.rng.range(p.steps.0, p.steps.1);
    if g.rng.chance(1, 12) {
        // a long history now and then
        n *= 4;
    }
    let mut steps = Vec::new();
    let many = matches!(p.name, "C02" | "C01" | "C13" | "C06" | "core") && g.rng.chance(1, if p.name == "C06" { 120 } else { 60 });
    // most programs start with a few sources (before or after the burst, if there is one: the
    // long-lived ones sit in the low or in the high slots)
    let k = g.rng.range(1, 3);
    let first = many && g.rng.chance(1, 2);
    if first {
        for _ in 0..k {
            steps.push(g.insert_op(0));
        }
    }
    if many {
        // many simultaneously ready sources (now and then more than the poller's event buffer
        // holds: 1024)
        let cnt = *g.rng.pick(&[24u32, 64, 200, 200, 1100]);
        let base = g.next_id;
        g.next_id += cnt;
        // the program goes on using some of them (also after they are gone: stale tokens)
        for i in [0, 1, 2, cnt / 2, cnt - 2, cnt - 1] {
            g.srcs.push((base + i, KindTag::Ping, false));
        }
        // the burst goes away again, in one go: from the top level, or from the callback of the
        // first of them while the events of the others are still in the batch - followed by
        // new insertions (slots of a list that was long a moment ago)
        let mut first_script = vec![];
        let mut after = vec![];
        if cnt >= 64 && g.rng.chance(2, 3) {
            let keep = *g.rng.pick(&[1u32, 1, 3]);
            if g.rng.chance(1, 2) {
                let mut ops = vec![Op::RemoveRange { base: base + 1, n: cnt - 1 }];
                for _ in 0..g.rng.range(2, 8) {
                    ops.push(g.insert_op(1));
                }
                first_script.push(CbEntry { ops, ret: Ret::Continue });
                after.push(Op::Dispatch(Timeout::Zero));
            } else {
                if g.rng.chance(1, 2) {
                    after.push(Op::Dispatch(Timeout::Zero));
                }
                after.push(Op::RemoveRange { base: base + keep, n: cnt - keep });
                for _ in 0..g.rng.range(2, 8) {
                    after.push(g.insert_op(0));
                }
            }
        }
        steps.push(Op::ManyPings { base, n: cnt, first_script });
        steps.extend(after);
    }
    if p.name == "C13" && g.rng.chance(1, 30) {
        // a long idle queue with holes in it: idles cancelled before they ran, more idles
        // inserted afterwards
        let cnt = *g.rng.pick(&[31u32, 32, 33, 64, 65, 130]);
        let base = g.next_id;
        g.next_id += cnt;
        for i in [0, 3, cnt / 2, cnt - 1] {
            g.idles.push(base + i);
        }
        steps.push(Op::ManyIdles { base, n: cnt });
        for _ in 0..g.rng.range(1, 3) {
            steps.push(Op::CancelIdle(base + g.rng.below(cnt as u64) as u32));
        }
        for _ in 0..g.rng.range(1, 3) {
            steps.push(g.idle_op(1));
        }
        if g.rng.chance(1, 2) {
            steps.push(Op::Dispatch(Timeout::Zero));
        }
    }
    if !first {
        for _ in 0..k {
            steps.push(g.insert_op(0));
        }
    }
    while (steps.len() as u64) < n {
        steps.extend(g.top_op());
    }
    // now and then the loop is dropped in mid-history and a second one takes over: what the
    // program kept (dispatchers, handles) outlives the first loop and is used with the second
    if matches!(p.name, "C16" | "C06" | "C05" | "core") && g.rng.chance(1, 12) && steps.len() > 3 {
        let at = g.rng.range(2, steps.len() as u64 - 1) as usize;
        steps.insert(at, Op::NewLoop);
        steps.insert(at, Op::DropLoop);
        let kept: Vec<Id> = g.srcs.iter().filter(|s| s.2).map(|s| s.0).collect();
        for k in kept {
            if g.rng.chance(2, 3) {
                let pos = g.rng.range(at as u64 + 2, steps.len() as u64) as usize;
                steps.insert(pos, Op::ReinsertKept(k));
            }
        }
    }
    // end with a couple of dispatches so that outstanding obligations are observed
    steps.push(Op::Dispatch(Timeout::Zero));
    if g.rng.chance(1, 2) {
        steps.push(Op::Advance(50 * MS));
        steps.push(Op::Dispatch(Timeout::Zero));
    }
    crate::gen2::retarget_idles(&mut g, &mut steps);
    // rare long history: tens of thousands of reuses of one slot (C01 / C06)
    if (p.name == "C01" || p.name == "C06") && g.rng.chance(1, 400) {
        steps.push(Op::SlotChurn(*g.rng.pick(&[300u32, 5000, 70000])));
        steps.push(Op::Dispatch(Timeout::Zero));
    }
    // ... and a timer that is armed before tens of thousands of other timers come and go and is
    // due after them (C02 / C05: whatever identifies a timeout inside the loop is not reused
    // while the timeout is alive)
    if (p.name == "C02" || p.name == "C05") && g.rng.chance(1, 300) {
        let id = g.fresh();
        steps.push(Op::InsertTimer { id, dl: Deadline::In(g.rng.range(5, 30) * MS), keep: g.rng.chance(1, 2), script: vec![] });
        steps.push(Op::SlotChurn(*g.rng.pick(&[5000u32, 70000, 70000, 140000])));
        steps.push(Op::Advance(40 * MS));
        steps.push(Op::Dispatch(Timeout::Zero));
    }
    let mut env = Vec::new();
    if p.env_events && g.rng.chance(1, 2) {
        let m = g.rng.range(1, 4);
        for _ in 0..m {
            // another thread wakes the loop while it sleeps (or any other cause)
            let op = if g.rng.chance(1, 5) { Some(Op::Wakeup) } else { g.cause_op() };
            if let Some(op) = op {
                if crate::ops::env_allowed(&op) {
                    env.push(EnvEvent { at: g.rng.below(120) * MS + g.rng.below(MS), op });
                }
            }
        }
    }
    let mut faults = Vec::new();
    if p.faults && g.rng.chance(2, 3) {
        let m = g.rng.range(1, 2);
        for _ in 0..m {
            faults.push(Fault {
                site: *g.rng.pick(&[0u8, 1, 2, 3, 5]),
                nth: g.rng.below(12) as u32,
                errno: *g.rng.pick(&[libc::EEXIST, libc::ENOENT, libc::EBADF, libc::EPERM, libc::ENOMEM]),
            });
        }
    }
    let perm_seed = if p.permute && g.rng.chance(3, 4) { g.rng.next() | 1 } else { 0 };
    Program { seed, profile: p.name.to_string(), perm_seed, table_every: if p.table_every > 0 { p.table_every } else if g.rng.chance(1, 4) { 4 } else { 0 }, steps, faults, env }
}

/// Reach probes a thorough run is expected to hit; one stuck at zero is reported in the
/// evidence file and means the generator must be re-biased.
pub const EXPECTED_PROBES: &[&str] = &[
    "event_for_source_touched_earlier_in_dispatch",
    "remove_self_in_callback",
    "remove_other_in_callback",
    "disable_other_in_callback",
    "update_other_in_callback",
    "self_disable_deferred",
    "self_update_deferred",
    "timer_rearmed_by_other_callback",
    "idle_inserted_by_idle",
    "idle_inserted_by_callback",
    "idle_cancelled",
    "stale_token_rejected",
    "stale_token_remove",
    "batch_multi_fd",
    "env_fired",
    "take_source_ok",
];
