#!/bin/bash
# Run the whole sensitivity catalogue (mutants/LIST), N at a time. Output: one line per
# (mutant, property): caught (exit 1 with a VIOLATION line) or MISSED.
cd /verif
N="${1:-4}"
FILTER="${2:-.}"
grep -v '^#' mutants/LIST | grep -E "$FILTER" | while read -r name props; do
    echo "$name $props"
done | xargs -P "$N" -L 1 bash -c 'name=$0; shift 0; props="$@"; MUTANT_SCRATCH=/tmp/mutant-$name MUTANT_SHOW=0 tools/mutant.sh mutants/$name.patch $props 2>&1 | grep "^MUTANT" | sed "s/exit=1 violations=\([0-9]*\)/CAUGHT (\1 classes)/; s/exit=0 violations=0/MISSED/"'
