#!/bin/bash
# tools/mutant.sh <patch-file> <PROP>... : apply the patch to a scratch copy of /repo, run the
# quick checks of the given properties from a scratch copy of the machinery, print the verdict.
# Nothing under /repo or /verif is touched; the scratch copies are removed afterwards.
set -u
PATCH="$(readlink -f "$1")"; shift
S="${MUTANT_SCRATCH:-/tmp/mutant-$$}"
rm -rf "$S"; mkdir -p "$S/verif" "$S/repo"
rsync -a --exclude target --exclude .git /repo/ "$S/repo/"
rsync -a --exclude target --exclude work --exclude .git --exclude evidence --exclude replays /verif/ "$S/verif/"
mkdir -p "$S/verif/evidence" "$S/verif/replays"
if [ "${MUTANT_REVERSE:-0}" = 1 ]; then R=-R; else R=; fi
if ! (cd "$S/repo" && patch -p1 $R --no-backup-if-mismatch < "$PATCH" >/dev/null); then echo "MUTANT $(basename $PATCH): patch does not apply"; rm -rf "$S"; exit 2; fi
# share the dependency build with the main target dir copy to save time
mkdir -p "$S/target"
if [ -d /verif/target/dsim ] && [ ! -d "$S/target/dsim" ]; then cp -a /verif/target/dsim "$S/target/dsim" 2>/dev/null; fi
if [ -d /verif/target/tsim ] && [ ! -d "$S/target/tsim" ]; then cp -a /verif/target/tsim "$S/target/tsim" 2>/dev/null; fi
rc_all=0
for P in "$@"; do
    out=$(VERIF_REPO="$S/repo" VERIF_TARGET="$S/target" ${MUTANT_ENV:-} "$S/verif/bin/check" "$P" "${MUTANT_TIER:-quick}" 2>&1); rc=$?
    nv=$(echo "$out" | grep -c '^VIOLATION')
    echo "MUTANT $(basename $PATCH) property=$P exit=$rc violations=$nv"
    echo "$out" | grep -A2 '^VIOLATION' | head -${MUTANT_SHOW:-6} | cut -c1-220
    [ $rc -eq 2 ] && echo "$out" | tail -15
    [ $rc -ne 1 ] && rc_all=1
done
[ "${MUTANT_KEEP:-0}" = 1 ] || rm -rf "$S"
exit $rc_all
