#!/bin/bash
# tools/seed-eval.sh <NAME> <worktree> <seeddir> <PROP>... : confirm a seeded change (suite passes,
# demo fails with it and passes without), run the quick checks of the given properties against
# it, store everything under /verif/seeded/<NAME>/.
NAME="$1"; WT="$2"; SD="$3"; shift 3
OUT=/verif/seeded/$NAME; mkdir -p "$OUT"
cp "$SD/patch.diff" "$OUT/patch.diff"; cp "$SD/demo.rs" "$OUT/demo.rs" 2>/dev/null; cp "$SD/demo-README.txt" "$OUT/demo-README.txt" 2>/dev/null; cp "$SD/meta.txt" "$OUT/meta.txt" 2>/dev/null
cd "$WT" || exit 2
suite=$(cargo test --workspace --no-fail-fast --offline --lib 2>&1 | grep -E "^test result" | head -1)
demo_with=$(timeout 600 cargo test --offline --features "block_on executor signals stream futures-io" --test seed_demo 2>&1 | grep -E "^test result" | head -1)
git diff -- src > /tmp/seed-eval-$NAME.diff; git checkout -q -- src
demo_without=$(timeout 600 cargo test --offline --features "block_on executor signals stream futures-io" --test seed_demo 2>&1 | grep -E "^test result" | head -1)
git apply /tmp/seed-eval-$NAME.diff; rm -f /tmp/seed-eval-$NAME.diff
echo "suite with change:   $suite"
echo "demo with change:    $demo_with"
echo "demo without change: $demo_without"
cd /verif
res=""
for P in "$@"; do
    o=$(MUTANT_SCRATCH=/tmp/mutant-seed-$NAME MUTANT_SHOW=4 tools/mutant.sh "$OUT/patch.diff" "$P" 2>&1)
    echo "$o"
    v=$(echo "$o" | grep "^MUTANT" | sed 's/.*exit=\([0-9]*\) violations=\([0-9]*\).*/\1:\2/')
    res="$res\"$P\": \"exit=${v%%:*} violation_classes=${v##*:}\", "
done
python3 - "$NAME" "$suite" "$demo_with" "$demo_without" "{${res%, }}" "$@" <<'PY'
import sys, json
name, suite, dw, dwo, res = sys.argv[1:6]
props = sys.argv[6:]
meta = {
 "name": name,
 "breaks_property": props[0] if props else None,
 "what_it_needs_to_manifest": open('/verif/seeded/%s/meta.txt' % name).read() if True else "",
 "confirmation": {"existing_suite_with_change (lib tests)": suite, "demo_with_change": dw, "demo_without_change": dwo,
   "commands": "in a scratch worktree of /repo: git apply patch.diff; add demo.rs as tests/seed_demo.rs with a [[test]] entry; cargo test --workspace --no-fail-fast --offline; cargo test --offline --features 'block_on executor signals stream futures-io' --test seed_demo; git stash the src change and run the demo again"},
 "checks_run": json.loads(res),
 "how_checks_were_run": "tools/mutant.sh seeded/%s/patch.diff <PROP>: scratch copy of /repo with the patch applied, scratch copy of /verif, bin/check <PROP> quick" % name,
}
json.dump(meta, open('/verif/seeded/%s/meta.json' % name, 'w'), indent=1)
PY
