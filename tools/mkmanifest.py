#!/usr/bin/env python3
"""Writes /verif/MANIFEST.json from the table below (kept in one place so it stays valid)."""
import json, subprocess, sys

CLAIMED = {
  # id: (engine, technique, level, level text, note, design_ref)
  "C01": ("dsim", "deterministic simulation: seeded histories + batch-order permutation, reference-model oracle at every callback", "exploration",
          "Seeded search over operation histories (all built-in source kinds, in-callback remove/disable/update/insert, immediate slot reuse, every batch order) against a behavioural reference model that checks each callback invocation when it happens: source inserted and enabled (or inside its own event), a cause of its own exists, payload as predicted. A clean batch is evidence, not proof.",
          "Trusted: the simulator's model (small, behavioural), Linux epoll/eventfd, polling. Slot reuse beyond 65535 generations is outside the property and not explored.", "3/C01"),
  "C02": ("dsim", "deterministic simulation: MUST-set oracle computed at the instant the batch is collected, poll(2) ground truth", "exploration",
          "At the end of every wait the model computes the set of inserted+enabled sources with a pending cause (poll(2) ground truth for fds, model for pings/channels/timers); after every Ok dispatch that set must be covered by invoked callbacks or by sources a previous callback of the same dispatch removed/disabled/re-registered. Level/OneShot/Edge contracts are modelled separately.",
          "Edge-triggered obligations only after a clean transition in a requested direction; up to 200 simultaneously ready sources (below the poller's batch size of 1024, as the property's quantifier says).", "3/C02"),
  "C05": ("dsim", "deterministic simulation with virtual discrete-event clock, timer reference model", "exploration",
          "All clock reads of calloop go through the virtual clock, so every history of arm/re-arm/cancel/fire is explored with exact times: at each timer callback now >= deadline, event == deadline, one firing per arming, non-decreasing deadlines per dispatch; every expired arming is in the MUST set of the first dispatch that polls at or after it; heap residue is bounded.",
          "Kernel timer accuracy is out of scope (virtual time).", "3/C05"),
  "C06": ("dsim", "deterministic simulation: removal paths x token reuse histories, drop counters, loop statistics", "exploration",
          "Every removal path (external, self, other, post-action, implicit close) mixed with re-insertions and later use of every token ever issued; checked: no callback after removal, InvalidToken for dead tokens, remove() with a dead token has no effect, each source and callback dropped exactly once by the end of the step (or into_source_inner succeeds), occupied slots == live sources, everything released once after the loop is dropped.",
          "The program never stores a LoopHandle inside something the loop owns (the documented cycle).", "3/C06"),
  "C07": ("dsim", "deterministic simulation: disable/enable histories from outside and inside callbacks, model oracle", "exploration",
          "The callback oracle of C01 enforces silence while disabled (including events already collected in the batch and the deferred self-disable); the MUST oracle of C02 computed after enable() enforces retention of readiness (pings, messages, unread bytes, expired deadlines).",
          "enable() of an enabled source is outside the documented protocol and is not generated. update() of a disabled source is generated (its Ok/Err result is not specified, the source must stay silent and disabled); on the unchanged tree it enabled timers and lifecycle sources: defect fixed by c09e3c6.", "3/C07"),
  "C12": ("dsim", "deterministic simulation with virtual clock: requested poller timeout compared exactly with the model", "exploration",
          "The wait hook records the effective timeout calloop asks the poller for; with the virtual clock it must equal min(timeout, earliest armed deadline - now) exactly, be Some(0) for a zero timeout and None when nothing limits the wait; an idle dispatch must end at start + effective timeout, having fired the limiting timer.",
          "How precisely the kernel honours the timeout is not judged (virtual time); polling's notify is observed through the real eventfd counter.", "3/C12"),
  "C13": ("dsim", "deterministic simulation: idle insertion/cancel histories incl. idles created by idles, per-dispatch trace oracle", "exploration",
          "Every idle invocation is checked when it happens (not cancelled, not run before, after the last source callback, in insertion order, not in the dispatch that an idle parent inserted it in); after every Ok dispatch no entitled idle may be left pending; every closure dropped exactly once at teardown.",
          "An idle cancelling itself through its own handle is not a listed operation and is not generated.", "3/C13"),
  "C16": ("dsim", "deterministic simulation: kernel epoll table (/proc/self/fdinfo) vs model after every operation", "exploration",
          "After every top-level operation the kernel's epoll interest list is parsed and compared with the model's expected table (key, IN/OUT/ET/ONESHOT bits incl. fired one-shots, fd where known); fds are kept open by the simulator after their source is gone (the harsher case), released fds are re-inserted, ghost events are flagged in the batch hook.",
          "Registration fault classes are off for this check (the property says 'absent registration failures').", "3/C16"),
}

CLAIMED.update({
  "C08": ("dsim", "deterministic simulation: generated callback programs over the (running kind, operation, target kind) matrix, panic oracle at the dispatch boundary", "exploration",
          "Callback and idle scripts of up to 6 handle operations (insert, register_dispatcher, insert_idle, remove, disable, update, enable of another source, ping/send on calloop's own handles, nested insertions whose callbacks act themselves) run inside real dispatches; every API call and every dispatch runs under catch_unwind, a panic or RefCell double borrow is a violation; the in-callback effect of each operation is checked by the same model as outside a dispatch. Evidence reports the matrix cells covered.",
          "enable() of and as_source_ref/mut on the running source are documented exclusions and never generated.", "3/C08"),
  "C09": ("dsim", "deterministic simulation: every source wrapped in a call-counting EventSource; register/reregister/unregister calls vs the calls the history implies", "exploration",
          "Every calloop source is inserted through a transparent wrapper that counts register/reregister/unregister calls and reports the returned PostAction; after every event and every step the counts of all sources must equal what the model derives from the history (Continue: nothing, Reregister: one reregister on that source, Disable: one unregister, Remove: one unregister and release; deferred self-requests merged only under Continue; nothing on any other source, nothing carried over, also after an error). The 16 PostAction pairs of | and |= are evaluated at the start of every run.",
          "The wrapper is harness code (thin delegation).", "3/C09"),
  "C14": ("dsim", "deterministic simulation: instrumented lifecycle sources (synthetic sub-token + one or two ping children, registrations failing at the last step, rejected sources kept alive) under update/disable/enable/remove/failed registrations, per-dispatch call trace oracle", "exploration",
          "Harness sources that opt into the additional lifecycle events record every before_sleep / before_handle_events call with its position relative to the wait and to the first process_events; per dispatch whose hooks and wait succeed: entitled (inserted and enabled at dispatch start) sources get exactly one of each in order, others none; a synthetic event forces a requested timeout of 0 and is delivered once to the same source; the iterator yields exactly the keys of the recorded real batch that carry the source's registration token; the lifecycle set size equals the model count with no duplicates. Scripted register/reregister/unregister/before_sleep failures are part of the histories.",
          "The lifecycle source is harness code written against the EventSource documentation.", "3/C14"),
  "C15": ("dsim", "deterministic simulation with fault enumeration: every epoll_ctl seam call and every process_events call of a fault-free history is failed in turn", "fault_enumeration",
          "Each generated history is first run fault-free, which numbers every fault site it passes (each Poll::register/reregister/unregister call, each process_events invocation); it is then re-run once per site with exactly that site failing (errno rotating over EEXIST, ENOENT, EBADF, EPERM, ENOMEM) and the history continues. Natural failures (duplicate fd, regular file) are ordinary steps. Oracle: the failing call returns Err, no panic then or later, slots and kernel table as before, only the source hit becomes indeterminate, every other source stays under the strict oracles, later insertions succeed.",
          "The source hit by a fault is not judged afterwards (any behaviour but a panic or an effect on others is accepted).", "3/C15"),
})

CLAIMED.update({
  "C17": ("dsim", "deterministic simulation: scripted futures over Async adapters on small-buffer socketpairs/pipes, raw peers, byte-stream and wake-up oracles", "exploration",
          "Hand-written futures move pattern bytes through poll_read / poll_write / vectored variants / flush / readable() / writable() with generated chunk sizes (1 B .. larger than the 4 KiB buffers) while the program drives the raw peer and places dispatches; oracles: every byte read equals the byte the peer wrote at that stream position (prefix at all times), when the stream ends (EOF, or a connection reset because the peer closed with bytes unread) the reader has been handed every byte the peer wrote, a task parked on an fd that poll(2) reports ready when the batch is collected has its waker invoked by that dispatch (proxy waker), then the executor oracle demands the poll; O_NONBLOCK is set while adapted and equals the original mode after drop / into_inner / failed adapt_io; the fd leaves the poller when the adapter goes.",
          "The futures and the Read/Write object are harness code; adapters share the fd with the simulator (fd stays open after the adapter is gone, the harsher case).", "3/C17"),
})

CLAIMED.update({
  "C18": ("dsim", "deterministic simulation: instrumented children inside TransientSource inside a documented-style parent in a real loop; registration log and kernel table vs a protocol model", "exploration",
          "Children (over a real pipe read end and over a real Timer) log every register/reregister/unregister/drop; histories over child post actions Continue/Reregister/Disable/Remove, remove(), replace(new), map() and parent-level enable/disable/update/remove, from From<T> and Default, each change followed by a re-registration request as documented. After every event and step: child registered iff it is the current kept child of a registered parent, never registered twice nor unregistered twice (while the parent's own calls alternate), retired children unregistered before being dropped and dropped by the retiring re-registration, events only from the current child, wrapper returns only Continue/Reregister, kernel epoll table agrees.",
          "remove() on a Replace state (documented leak) and non-alternating parent calls (LoopHandle::remove of a disabled source) are outside the property's proviso.", "3/C18"),
})

CLAIMED.update({
  "C03": ("dsim+tsim", "deterministic simulation: shuttle-scheduled threads pinging a real loop (schedules at every eventfd write/drain/handle drop) + single-threaded histories, history oracles", "exploration",
          "tsim: 1-3 pinger threads with cloned handles against a dispatching loop, every interleaving chosen by a seeded random / PCT scheduler at the granularity of each eventfd write, drain and handle drop (hooks) ; after each execution the recorded history is checked: every returned ping() is followed by a callback that starts after the ping began, every callback is justified by a ping written since the previous callback, the source removes itself after the last handle is gone and the loop does not spin afterwards. dsim: single-threaded histories of ping/clone/drop/disable/enable/dispatch under the model oracle (coalescing, close marker, removal).",
          "Sequentially consistent interleavings only; the eventfd itself is the real kernel object.", "3/C03"),
  "C04": ("dsim+tsim", "deterministic simulation: shuttle-scheduled sender threads (calloop's mpsc replaced by shuttle's model) + single-threaded histories around the 1024 batch limit, history oracles", "exploration",
          "tsim: channel() and sync_channel(0/1/2/8), 1-3 sender threads doing send/try_send/drop, schedules at every queue push/pop, wake write and drain; oracle over the history: each successfully sent message delivered exactly once, per-sender order, exactly one Closed after the last sender began to drop, nothing after it, channel removed, and liveness: the loop thread is never left dispatching without progress while a sender is blocked or a message is queued. dsim: queue lengths 1023/1024/1025/2049, sync capacities, disable/enable, in-callback sends under the FIFO model.",
          "The sync_channel(0) rendezvous deadlock this check found (was known finding F02) is repaired (9ed4dad); reverting either half of the repair is caught. mpsc is shuttle's model of std's.", "3/C04"),
  "C10": ("dsim+tsim", "deterministic simulation: shuttle-scheduled waker threads against an Executor in a real loop + single-threaded executor/stream histories, history oracles", "exploration",
          "tsim: 1-3 scripted futures (Pending m times, waker stashed), 1-3 threads waking them, optional removal of the executor while wakers are active; schedules at enqueue / notified-flag swap / eventfd write / flag clear / dequeue; oracle: every completed wake of a live task is followed by a poll, polls and drops only on the loop thread, each output exactly once, after the executor is dropped every future is dropped and schedule() is refused. dsim: schedule from callbacks and futures, 1023/1024/1025/2049 runnable tasks, drop with queued/finished/pending tasks, StreamSource item order / single None / removal.",
          "Known finding F12 (wake racing Executor::drop leaks the future) is reported as KNOWN-FINDING. Interleavings inside async-task are atomic steps.", "3/C10"),
  "C11": ("dsim+tsim", "deterministic simulation: shuttle-scheduled stop()/wakeup()/waker.wake() threads against run() and block_on() with the real poller notifier, history oracle; single-threaded run()/block_on() histories", "exploration",
          "dsim: run(timeout) with a stop requested from the per-iteration closure after k iterations and block_on(future) with self-waking (yield pattern) and externally woken futures, mixed with every other operation; each iteration is checked like a dispatch, run must return after exactly the requested iteration, block_on must poll after every wake and return Some/None correctly. tsim: The loop thread runs run(None) or block_on(future); 1-3 threads issue wakeup(), stop() and waker wakes at every point of the loop thread's progress (flag checks, entering/leaving the wait, polling the future); the wait hook never blocks the OS thread: it consults the real eventfd counter of polling's notifier and the real epoll each round and yields, and declares the loop stuck after 3000 empty rounds with fair yielding. Oracle: never stuck after a completed wakeup / stop+wakeup / wake; run returns Ok only after a stop began; at most one new wait after stop();wakeup() completed; block_on returns Some iff the future returned Ready, None only after a stop, every wake followed by a poll.",
          "stop() issued before run() has reset its flag is outside the property. polling's notify/wait are real code.", "3/C11"),
})

CLAIMED.update({
  "C19": ("dsim", "deterministic simulation in a strictly single-threaded worker process: Signals source under add/remove/set/drop histories with raise() at every point, mask and disposition oracles", "exploration",
          "Counting handlers are installed for the universe {USR1, USR2, WINCH, URG} so that normal disposition is observable and never fatal; histories of Signals::new/add_signals/remove_signals/set_signals/disable/enable/remove/drop interleaved with raise() (configured or not, before or after a mask change) and dispatches; after every operation: pthread_sigmask(query) restricted to the universe equals the configured set (empty after drop), the handler counters equal what the model expects (a signal that stays configured across a change must never reach the handler, an unconfigured or de-configured one reaches it exactly once), every pending configured signal is in the MUST set and reaches the callback exactly once with the right number, pid and uid.",
          "Standard signals coalesce: at most two instances of a signal are pending at once (one thread-directed, one process-directed), universe of 10 signals (2, 4 or 10 per run). One Signals source at a time. Real-time signals and multi-threaded masks are not explored.", "3/C19"),
})

NOT_APPLICABLE = {
  "C20": "pure function of its inputs (shift/mask arithmetic, a counter): no schedule, clock, fault or history for a simulator to control; exhaustive enumeration or proof would be the right tool, which is outside this technique family",
}

NOT_YET = {} 
NOT_YET_OLD = {
  "C03": "thread-schedule simulator (shuttle) not finished yet; the single-threaded half runs inside the dsim engine but the deciding quantifier is schedules",
  "C04": "thread-schedule simulator (shuttle) not finished yet",
  "C08": "re-entrancy matrix harness not finished yet",
  "C09": "post-action harness not finished yet",
  "C10": "executor/stream harness not finished yet",
  "C11": "thread-schedule simulator (shuttle) not finished yet",
  "C14": "lifecycle harness not finished yet",
  "C15": "fault-enumeration harness not finished yet",
  "C17": "Async adapter harness not finished yet",
  "C18": "TransientSource harness not finished yet",
  "C19": "signal simulator not finished yet",
}

def main():
    commits = subprocess.run(["git", "-C", "/repo", "log", "--format=%h %s"], capture_output=True, text=True).stdout.splitlines()
    hooks = [c.split()[0] for c in commits if c.split(" ", 1)[1].startswith("verif hooks")]
    checks = []
    for pid, (engine, tech, level, text, note, ref) in sorted(CLAIMED.items()):
        checks.append({
            "property_id": pid,
            "quick_cmd": f"bin/check {pid} quick",
            "thorough_cmd": f"bin/check {pid} thorough",
            "evidence_file": f"/verif/evidence/{pid}.json",
            "replay_cmd_template": "bin/check replay {path}",
            "engine": engine,
            "level_claimed": {"category": level, "text": text, "design_ref": f"DESIGN.md section {ref}"},
            "level_note": note,
            "technique": tech,
        })
    na = [{"property_id": k, "reason": v} for k, v in sorted({**NOT_APPLICABLE, **{k: "not claimed (yet): " + v for k, v in NOT_YET.items() if k not in CLAIMED}}.items())]
    m = {
        "version": 1,
        "setup_cmd": "bin/check setup",
        "hooks": {
            "guard": "--cfg calloop_verif (second guard --cfg calloop_verif_shuttle for the thread-schedule simulator)",
            "enable": "RUSTFLAGS='--cfg calloop_verif' through the shadow manifest /verif/shadow/calloop/Cargo.toml whose [lib] path points at /repo/src/lib.rs (bin/check does this)",
            "baseline_off_cmd": "cd /repo && cargo test --workspace --no-fail-fast --offline",
            "source_commits": hooks,
            "add_only": False,
        },
        "engines": [
            {"name": "tsim", "path": "/verif/sim (feature tsim)", "serves_properties": sorted(k for k, v in CLAIMED.items() if "tsim" in v[0]),
             "kind_free_text": "thread-schedule simulator on shuttle: calloop built with its mpsc/Mutex/AtomicBool replaced by shuttle's models, all threads are coroutines on one OS thread, seeded random and PCT schedulers wrapped in a record/replay scheduler with fair yields; named scheduling points at every eventfd write/drain/notify; history oracles; schedule + parameter minimisation; replay files"},
            {"name": "dsim", "path": "/verif/sim", "serves_properties": sorted(k for k, v in CLAIMED.items() if "dsim" in v[0]),
             "kind_free_text": "single-threaded discrete-event simulator: generated program (data) drives a real EventLoop and a reference model in lock-step; virtual clock, non-blocking wait, seeded batch permutation, injected epoll_ctl faults; 16 worker processes; JSON delta-debugging minimiser; replay files"},
        ],
        "checks": checks,
        "not_applicable": na,
        "engines_note": "second hook commit (calloop_verif_shuttle) splits three existing std::sync import lines into cfg(not(..)) / cfg(..) pairs; everything else in both hook commits only adds code",
        "notes": "Exit codes of every command: 0 held (possibly with KNOWN-FINDING lines), 1 unlisted violation (VIOLATION line with replay file), 2 harness error. VERIF_SEED selects the seed (default 1), VERIF_RUNS overrides the run count.",
    }
    json.dump(m, open("/verif/MANIFEST.json", "w"), indent=1)
    print("MANIFEST.json written:", len(checks), "checks,", len(na), "not claimed")

if __name__ == "__main__":
    main()
