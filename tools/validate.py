#!/usr/bin/env python3
import json, sys, glob
import jsonschema
m = json.load(open('/verif/MANIFEST.json'))
jsonschema.validate(m, json.load(open('/root/.vp/MANIFEST.schema.json')))
print("MANIFEST ok")
es = json.load(open('/root/.vp/EVIDENCE.schema.json'))
for c in m['checks']:
    try:
        e = json.load(open(c['evidence_file']))
        jsonschema.validate(e, es)
        assert e['property_id'] == c['property_id']
        print(c['property_id'], 'evidence ok', e['tier'], e['coverage']['evaluations'], e['coverage']['distinct_nontrivial'])
    except Exception as ex:
        print(c['property_id'], 'EVIDENCE PROBLEM', str(ex)[:200])
