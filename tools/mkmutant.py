#!/usr/bin/env python3
"""mkmutant.py <name> <file> <<< 'old|||new' : make mutants/<name>.patch from a textual edit of /repo/<file>."""
import sys, subprocess, tempfile, os, shutil
name, path = sys.argv[1], sys.argv[2]
old, new = sys.stdin.read().split("|||")
old = old.strip("\n"); new = new.strip("\n")
src = open("/repo/" + path).read()
assert src.count(old) == 1, ("old text occurs", src.count(old))
d = tempfile.mkdtemp()
os.makedirs(os.path.join(d, "a", os.path.dirname(path))); os.makedirs(os.path.join(d, "b", os.path.dirname(path)))
open(os.path.join(d, "a", path), "w").write(src)
open(os.path.join(d, "b", path), "w").write(src.replace(old, new))
p = subprocess.run(["diff", "-u", "a/" + path, "b/" + path], cwd=d, capture_output=True, text=True).stdout
open("/verif/mutants/%s.patch" % name, "w").write(p)
shutil.rmtree(d)
print("wrote mutants/%s.patch (%d lines)" % (name, len(p.splitlines())))
